#!/bin/bash
# Build everything the checks need, offline, from files on disk only.
set -e
cd /verif
export CARGO_NET_OFFLINE=true
./check --build-all
