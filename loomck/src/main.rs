//! C17(b) — loom: exhaustive thread interleavings (preemption-bounded) of real
//! `Port` / `PtpInstance` code over a loom-backed `PtpInstanceStateMutex`.
//!
//! usage: loomck <preemption bound>     prints one JSON line `LOOMRESULT {...}`

use std::collections::BTreeSet;
use std::sync::Mutex as StdMutex;

use loom::sync::RwLock;
use rand::RngCore;
use simcore::refcodec::{self as rc, Body};
use simcore::scen::Peer;
use statime::config::{AcceptAnyMaster, ClockIdentity, ClockQuality, DelayMechanism, InstanceConfig, PortConfig, PtpMinorVersion, SdoId, TimePropertiesDS, TimeSource};
use statime::filters::BasicFilter;
use statime::port::{InBmca, NoForwardedTLVs, Port, PortAction, Running};
use statime::time::{Duration, Interval, Time};
use statime::{Clock, PtpInstance, PtpInstanceState, PtpInstanceStateMutex};

loom::thread_local! {
    static DEPTH: std::cell::Cell<u32> = std::cell::Cell::new(0);
}
static NESTED: StdMutex<u64> = StdMutex::new(0);

pub struct LoomLock(RwLock<PtpInstanceState>);

struct Guard;
impl Guard {
    fn enter() -> Guard {
        DEPTH.with(|d| {
            d.set(d.get() + 1);
            if d.get() > 1 {
                *NESTED.lock().unwrap() += 1;
            }
        });
        Guard
    }
}
impl Drop for Guard {
    fn drop(&mut self) {
        DEPTH.with(|d| d.set(d.get() - 1));
    }
}

impl PtpInstanceStateMutex for LoomLock {
    fn new(state: PtpInstanceState) -> Self {
        LoomLock(RwLock::new(state))
    }
    fn with_ref<R, F: FnOnce(&PtpInstanceState) -> R>(&self, f: F) -> R {
        let _g = Guard::enter();
        f(&self.0.read().unwrap())
    }
    fn with_mut<R, F: FnOnce(&mut PtpInstanceState) -> R>(&self, f: F) -> R {
        let _g = Guard::enter();
        f(&mut self.0.write().unwrap())
    }
}

struct FixedRng;
impl RngCore for FixedRng {
    fn next_u32(&mut self) -> u32 {
        0x8000_0000
    }
    fn next_u64(&mut self) -> u64 {
        0x8000_0000_0000_0000
    }
    fn fill_bytes(&mut self, d: &mut [u8]) {
        d.fill(0x80)
    }
    fn try_fill_bytes(&mut self, d: &mut [u8]) -> Result<(), rand::Error> {
        d.fill(0x80);
        Ok(())
    }
}

struct LClock;
impl Clock for LClock {
    type Error = ();
    fn now(&self) -> Time {
        Time::from_secs(5)
    }
    fn step_clock(&mut self, _o: Duration) -> Result<Time, ()> {
        Ok(Time::from_secs(5))
    }
    fn set_frequency(&mut self, _p: f64) -> Result<Time, ()> {
        Ok(Time::from_secs(5))
    }
    fn set_properties(&mut self, _t: &TimePropertiesDS) -> Result<(), ()> {
        Ok(())
    }
}

type Inst = PtpInstance<BasicFilter, LoomLock>;
type RPort = Port<'static, Running, AcceptAnyMaster, FixedRng, LClock, BasicFilter, LoomLock>;
type BPort = Port<'static, InBmca, AcceptAnyMaster, FixedRng, LClock, BasicFilter, LoomLock>;

fn instance() -> &'static Inst {
    let cfg = InstanceConfig {
        clock_identity: ClockIdentity([0x10, 0, 0, 0, 0, 0, 0, 1]),
        priority_1: 128,
        priority_2: 128,
        domain_number: 0,
        sdo_id: SdoId::default(),
        slave_only: false,
        path_trace: false,
        clock_quality: ClockQuality::default(),
    };
    Box::leak(Box::new(PtpInstance::new(cfg, TimePropertiesDS::new_arbitrary_time(false, false, TimeSource::InternalOscillator))))
}

fn add_port(inst: &'static Inst) -> BPort {
    let i = Interval::from_log_2(0);
    inst.add_port(
        PortConfig {
            acceptable_master_list: AcceptAnyMaster,
            delay_mechanism: DelayMechanism::E2E { interval: i },
            announce_interval: i,
            announce_receipt_timeout: 3,
            sync_interval: i,
            master_only: false,
            delay_asymmetry: Duration::ZERO,
            minor_ptp_version: PtpMinorVersion::One,
        },
        0.25,
        LClock,
        FixedRng,
    )
}

/// boundary clock: port A slave to the parent, port B master
fn boundary_clock(parent: &mut Peer) -> (&'static Inst, RPort, RPort) {
    let inst = instance();
    let (mut a, _) = add_port(inst).end_bmca();
    let (mut b, _) = add_port(inst).end_bmca();
    for _ in 0..2 {
        let f = parent.announce();
        for _ in a.handle_general_receive(&f) {}
    }
    for _ in b.handle_announce_receipt_timer() {}
    let mut ab = a.start_bmca();
    let mut bb = b.start_bmca();
    inst.bmca(&mut [&mut ab, &mut bb]);
    let (a, _) = ab.end_bmca();
    let (b, _) = bb.end_bmca();
    assert!(a.is_steering() && b.is_master());
    (inst, a, b)
}

/// (grandmaster identity, class, priority1, priority2, steps, utc, time source) — one coherent view
type View = ([u8; 8], u8, u8, u8, u16, Option<i16>, u8);

fn view_parent(inst: &Inst) -> ([u8; 8], u8, u8, u8) {
    let p = inst.parent_ds();
    (p.grandmaster_identity.0, p.grandmaster_clock_quality.clock_class, p.grandmaster_priority_1, p.grandmaster_priority_2)
}
fn view_tp(inst: &Inst) -> (Option<i16>, u8, bool) {
    let t = inst.time_properties_ds();
    (t.current_utc_offset, t.time_source.to_primitive(), t.time_traceable)
}
fn view_of_announce(bytes: &[u8]) -> Option<View> {
    let m = rc::decode(bytes).ok()?;
    let Body::Announce(a) = &m.body else { return None };
    let utc = if m.hdr.flags[1] & 4 != 0 { Some(a.utc_offset) } else { None };
    Some((a.gm_identity, a.gm_class, a.gm_priority1, a.gm_priority2, a.steps_removed, utc, a.time_source))
}
fn view_of_peer(p: &Peer) -> View {
    let utc = if p.flags[1] & 4 != 0 { Some(p.utc_offset) } else { None };
    (p.gm_identity, p.class, p.priority1, p.priority2, p.steps_removed + 1, utc, p.time_source)
}

fn contents() -> [Peer; 3] {
    let base = Peer::gm(1, 10);
    let mut x0 = base.clone();
    x0.gm_identity = [0x71; 8];
    x0.class = 100;
    x0.priority2 = 11;
    x0.steps_removed = 1;
    x0.flags = [0, 0b0001_0100];
    x0.utc_offset = 30;
    x0.time_source = 0x10;
    let mut x1 = base.clone();
    x1.gm_identity = [0x72; 8];
    x1.class = 110;
    x1.priority1 = 9;
    x1.priority2 = 22;
    x1.steps_removed = 2;
    x1.flags = [0, 0b0000_0100];
    x1.utc_offset = 31;
    x1.time_source = 0x20;
    let mut x2 = base.clone();
    x2.gm_identity = [0x73; 8];
    x2.class = 120;
    x2.priority1 = 8;
    x2.priority2 = 33;
    x2.steps_removed = 3;
    x2.flags = [0, 0b0001_0000];
    x2.utc_offset = 32;
    x2.time_source = 0x40;
    [x0, x1, x2]
}

#[derive(Default)]
struct Tally {
    iterations: u64,
    outcomes: BTreeSet<String>,
    violations: BTreeSet<String>,
}

fn spawn_big<F: FnOnce() + Send + 'static>(f: F) -> loom::thread::JoinHandle<()> {
    loom::thread::Builder::new().stack_size(1 << 21).spawn(f).unwrap()
}

/// scenario 1: port A applies two parent Announces with different contents; port B sends
/// Announces; an observer reads the data sets
fn scenario_updates(bound: usize, tally: &'static StdMutex<Tally>) {
    let mut b = loom::model::Builder::new();
    b.preemption_bound = Some(bound);
    b.check(move || {
      spawn_big(move || {
        let [x0, x1, x2] = contents();
        let mut parent = x0.clone();
        let (inst, mut a, mut bport) = boundary_clock(&mut parent);
        let seq = parent.announce_seq;
        let valid: Vec<View> = vec![view_of_peer(&x0), view_of_peer(&x1), view_of_peer(&x2)];
        let v1 = valid.clone();
        let v2 = valid.clone();
        let f1 = rc::encode(&x1.announce_msg(seq));
        let f2 = rc::encode(&x2.announce_msg(seq.wrapping_add(1)));
        let ta = spawn_big(move || {
            for _ in a.handle_general_receive(&f1) {}
            for _ in a.handle_general_receive(&f2) {}
        });
        let tb = spawn_big(move || {
            let mut seen = vec![];
            for _ in 0..2 {
                for act in bport.handle_announce_timer(&mut NoForwardedTLVs) {
                    if let PortAction::SendGeneral { data, .. } = act {
                        if let Some(v) = view_of_announce(data) {
                            seen.push(v);
                        }
                    }
                }
            }
            let mut t = tally.lock().unwrap();
            for v in &seen {
                if !v1.contains(v) {
                    t.violations.insert(format!("announce-mixes-two-updates: {:?}", v));
                }
            }
            t.outcomes.insert(format!("announces {:?}", seen.iter().map(|v| v.0[0]).collect::<Vec<_>>()));
        });
        let tobs = spawn_big(move || {
            let p = view_parent(inst);
            let tp = view_tp(inst);
            let s = inst.current_ds(None).steps_removed;
            let mut t = tally.lock().unwrap();
            if !v2.iter().any(|v| (v.0, v.1, v.2, v.3) == p) {
                t.violations.insert(format!("parent-ds-snapshot-mixes-two-updates: {:?}", p));
            }
            if !v2.iter().any(|v| v.5 == tp.0 && v.6 == tp.1) {
                t.violations.insert(format!("time-properties-snapshot-mixes-two-updates: {:?}", tp));
            }
            if !v2.iter().any(|v| v.4 == s) {
                t.violations.insert(format!("current-ds-snapshot-invalid: {}", s));
            }
            t.outcomes.insert(format!("observer gm {:#x} tp {:?} steps {}", p.0[0], tp.0, s));
        });
        ta.join().unwrap();
        tb.join().unwrap();
        tobs.join().unwrap();
        tally.lock().unwrap().iterations += 1;
      }).join().unwrap();
    });
}

/// scenario 2: the instance-level BMCA (which makes the instance grandmaster again after the
/// parent was replaced by a worse one) against an observer and a quality change
fn scenario_bmca(bound: usize, tally: &'static StdMutex<Tally>) {
    let mut b = loom::model::Builder::new();
    b.preemption_bound = Some(bound);
    b.check(move || {
      spawn_big(move || {
        let [x0, _, _] = contents();
        let mut parent = x0.clone();
        let (inst, a, bport) = boundary_clock(&mut parent);
        // a better master appears on port B: the BMCA will move the parent there
        let mut better = Peer::gm(7, 1);
        better.gm_identity = [0x7b; 8];
        better.class = 50;
        better.priority2 = 44;
        better.flags = [0, 0b0010_0100];
        better.utc_offset = 40;
        better.time_source = 0x50;
        let mut bport = bport;
        for _ in 0..2 {
            let f = better.announce();
            for _ in bport.handle_general_receive(&f) {}
        }
        let valid = vec![view_of_peer(&x0), view_of_peer(&better)];
        let v2 = valid.clone();
        let tb = spawn_big(move || {
            let mut ab = a.start_bmca();
            let mut bb = bport.start_bmca();
            inst.bmca(&mut [&mut ab, &mut bb]);
            let (a, _) = ab.end_bmca();
            let (b, _) = bb.end_bmca();
            tally.lock().unwrap().outcomes.insert(format!("after bmca: A steering {} B steering {}", a.is_steering(), b.is_steering()));
        });
        let tq = spawn_big(move || {
            inst.set_clock_quality(ClockQuality { clock_class: 200, ..Default::default() });
            inst.set_slave_only(false);
            let d = inst.default_ds();
            assert_eq!(d.clock_quality.clock_class, 200);
        });
        let tobs = spawn_big(move || {
            let p = view_parent(inst);
            let tp = view_tp(inst);
            let mut t = tally.lock().unwrap();
            if !v2.iter().any(|v| (v.0, v.1, v.2, v.3) == p) {
                t.violations.insert(format!("parent-ds-snapshot-mixes-two-updates(bmca): {:?}", p));
            }
            if !v2.iter().any(|v| v.5 == tp.0 && v.6 == tp.1) {
                t.violations.insert(format!("time-properties-snapshot-mixes-two-updates(bmca): {:?}", tp));
            }
            t.outcomes.insert(format!("observer(bmca) gm {:#x} utc {:?}", p.0[0], tp.0));
        });
        tb.join().unwrap();
        tq.join().unwrap();
        tobs.join().unwrap();
        tally.lock().unwrap().iterations += 1;
      }).join().unwrap();
    });
}

/// A grandmaster (own clockClass 248) has just qualified a better foreign master: the BMCA run
/// that makes it slave races with a run-time change of the local clock quality.  Whatever the
/// interleaving, once both are done parentDS is the foreign master's, in full.
fn scenario_takeover(bound: usize, tally: &'static StdMutex<Tally>) {
    let mut b = loom::model::Builder::new();
    b.preemption_bound = Some(bound);
    b.check(move || {
      spawn_big(move || {
        let inst = instance();
        let (mut a, _) = add_port(inst).end_bmca();
        let mut better = Peer::gm(7, 1);
        better.gm_identity = [0x7b; 8];
        better.class = 50;
        better.priority2 = 44;
        for _ in 0..2 {
            let f = better.announce();
            for _ in a.handle_general_receive(&f) {}
        }
        let want = view_of_peer(&better);
        let tb = spawn_big(move || {
            let mut ab = a.start_bmca();
            inst.bmca(&mut [&mut ab]);
            let (a, _) = ab.end_bmca();
            tally.lock().unwrap().outcomes.insert(format!("after bmca: steering {}", a.is_steering()));
        });
        let tq = spawn_big(move || {
            inst.set_clock_quality(ClockQuality { clock_class: 187, ..Default::default() });
        });
        let tobs = spawn_big(move || {
            // any snapshot is either the instance's own view (class 248 or 187) or the foreign one
            let p = view_parent(inst);
            let own_gm = inst.default_ds().clock_identity.0;
            let mut t = tally.lock().unwrap();
            let foreign = (want.0, want.1, want.2, want.3) == p;
            let own = p.0 == own_gm && (p.1 == 248 || p.1 == 187);
            if !foreign && !own {
                t.violations.insert(format!("parent-ds-snapshot-mixes-two-updates(takeover): {:?}", p));
            }
            t.outcomes.insert(format!("observer(takeover) gm {:#x} class {}", p.0[0], p.1));
        });
        tb.join().unwrap();
        tq.join().unwrap();
        tobs.join().unwrap();
        let p = view_parent(inst);
        let mut t = tally.lock().unwrap();
        if (want.0, want.1, want.2, want.3) != p {
            t.violations.insert(format!("parent-ds-mixes-two-updates(takeover): final {:?}, the foreign master announced {:?}", p, (want.0, want.1, want.2, want.3)));
        }
        t.outcomes.insert(format!("final(takeover) gm {:#x} class {}", p.0[0], p.1));
        t.iterations += 1;
      }).join().unwrap();
    });
}

/// scenario 4: the slave port's master has fallen silent; the BMCA run in which its records leave
/// the window makes the instance grandmaster again (parentDS, currentDS and timePropertiesDS all
/// change in that one update).  An observer that reads parentDS first and timePropertiesDS second
/// can see (old, old), (old, new) or (new, new) but never (new, old); one that reads in the other
/// order never sees (new timeProperties, old parent).
fn scenario_regain(bound: usize, tally: &'static StdMutex<Tally>) {
    let mut b = loom::model::Builder::new();
    b.preemption_bound = Some(bound);
    b.check(move || {
      spawn_big(move || {
        let [x0, _, _] = contents();
        let run_bmca = |inst: &'static Inst, a: RPort, bport: RPort| -> (RPort, RPort) {
            let mut ab = a.start_bmca();
            let mut bb = bport.start_bmca();
            inst.bmca(&mut [&mut ab, &mut bb]);
            (ab.end_bmca().0, bb.end_bmca().0)
        };
        // how many BMCA runs without an Announce until the instance is its own grandmaster again?
        let k = {
            let mut parent = x0.clone();
            let (inst, mut a, mut bport) = boundary_clock(&mut parent);
            let own = inst.default_ds().clock_identity.0;
            let mut k = 0;
            while inst.parent_ds().grandmaster_identity.0 != own {
                (a, bport) = run_bmca(inst, a, bport);
                k += 1;
                assert!(k < 20, "harness: the silent master is never dropped");
            }
            k
        };
        let mut parent = x0.clone();
        let (inst, mut a, mut bport) = boundary_clock(&mut parent);
        for _ in 0..k - 1 {
            (a, bport) = run_bmca(inst, a, bport);
        }
        let own = inst.default_ds().clock_identity.0;
        let old = view_of_peer(&x0);
        assert_eq!(view_parent(inst).0, old.0, "harness: still the old parent before the last run");
        let old_tp = (old.5, old.6);
        assert_eq!((view_tp(inst).0, view_tp(inst).1), old_tp, "harness: the old master's time properties before the last run");
        let tb = spawn_big(move || {
            let _ = run_bmca(inst, a, bport);
        });
        let tobs = spawn_big(move || {
            let p = view_parent(inst);
            let tp = view_tp(inst);
            let s = inst.current_ds(None).steps_removed;
            let mut t = tally.lock().unwrap();
            let p_new = p.0 == own;
            let tp_new = (tp.0, tp.1) != old_tp;
            if p_new && !tp_new {
                t.violations.insert(format!("data-sets-show-half-of-one-update(regain): parentDS already names the own clock, timePropertiesDS read afterwards is still the old master's {:?}", tp));
            }
            if tp_new && s != 0 {
                t.violations.insert(format!("data-sets-show-half-of-one-update(regain): timePropertiesDS is the local one, currentDS.stepsRemoved read afterwards is still {s}"));
            }
            t.outcomes.insert(format!("observer(regain) parent-new {p_new} tp-new {tp_new} steps {s}"));
        });
        let tobs2 = spawn_big(move || {
            let tp = view_tp(inst);
            let p = view_parent(inst);
            let mut t = tally.lock().unwrap();
            let p_new = p.0 == own;
            let tp_new = (tp.0, tp.1) != old_tp;
            if tp_new && !p_new {
                t.violations.insert(format!("data-sets-show-half-of-one-update(regain): timePropertiesDS already local, parentDS read afterwards still names {:?}", p.0));
            }
            t.outcomes.insert(format!("observer2(regain) tp-new {tp_new} parent-new {p_new}"));
        });
        tb.join().unwrap();
        tobs.join().unwrap();
        tobs2.join().unwrap();
        let p = view_parent(inst);
        let tp = view_tp(inst);
        let mut t = tally.lock().unwrap();
        if p.0 != own || (tp.0, tp.1) == old_tp {
            t.violations.insert(format!("harness-expectation(regain): after the run parent {:?} time properties {:?}", p.0, tp));
        }
        t.iterations += 1;
      }).join().unwrap();
    });
}

fn main() {
    let bound: usize = std::env::args().nth(1).and_then(|s| s.parse().ok()).unwrap_or(2);
    let only: Option<String> = std::env::args().nth(2);
    let mut out = vec![];
    for (name, f) in [("updates", scenario_updates as fn(usize, &'static StdMutex<Tally>)), ("bmca", scenario_bmca), ("takeover", scenario_takeover), ("regain", scenario_regain)] {
        if only.as_deref().map(|o| o != name).unwrap_or(false) {
            continue;
        }
        let tally: &'static StdMutex<Tally> = Box::leak(Box::new(StdMutex::new(Tally::default())));
        *NESTED.lock().unwrap() = 0;
        let start = std::time::Instant::now();
        let r = std::panic::catch_unwind(|| f(bound, tally));
        let t = tally.lock().unwrap_or_else(|e| e.into_inner());
        let mut viol: Vec<String> = t.violations.iter().cloned().collect();
        if let Err(e) = r {
            let msg = e.downcast_ref::<String>().cloned().or_else(|| e.downcast_ref::<&str>().map(|s| s.to_string())).unwrap_or_default();
            viol.push(format!("loom-reported: {}", msg.lines().next().unwrap_or("")));
        }
        let nested = *NESTED.lock().unwrap();
        if nested > 0 {
            viol.push(format!("nested-lock-acquisition: {nested} acquisitions while the lock was already held by the same thread"));
        }
        out.push(serde_json::json!({
            "scenario": name,
            "preemption_bound": bound,
            "iterations": t.iterations,
            "distinct_outcomes": t.outcomes.len(),
            "outcomes": t.outcomes.iter().cloned().collect::<Vec<_>>(),
            "violations": viol,
            "wall_s": start.elapsed().as_secs_f64(),
        }));
    }
    println!("LOOMRESULT {}", serde_json::Value::Array(out));
}
