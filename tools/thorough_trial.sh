#!/bin/bash
# usage: tools/thorough_trial.sh <ID>...   — runs the thorough tier of the given checks from a private
# copy of the harness binaries (so that rebuilding /verif/mc meanwhile does not disturb it), writes
# evidence/<ID>.trial.json and appends one line per check to /verif/target/trial/summary.txt
mkdir -p /verif/target/trial /verif/target/trialbin
cp /verif/target/mc/release/mc /verif/target/trialbin/mc
for id in "$@"; do
  s=$(date +%s)
  VERIF_EVIDENCE_SUFFIX=.trial timeout 10800 /verif/target/trialbin/mc "$id" thorough > /verif/target/trial/$id.log 2>&1; rc=$?
  e=$(date +%s)
  echo "$id rc=$rc $((e-s))s $(grep -c '^KNOWN-FINDING' /verif/target/trial/$id.log) known; $(grep -E '^VIOLATION' /verif/target/trial/$id.log | head -3 | tr '\n' ' ')" >> /verif/target/trial/summary.txt
done
echo ALLDONE >> /verif/target/trial/summary.txt
