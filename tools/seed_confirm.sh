#!/bin/bash
# usage: tools/seed_confirm.sh <seed dir> <worktree> [crate=statime]
# confirms in the scratch worktree: suite passes with change; demo passes without, fails with.
sd="$1"; wt="$2"; crate="${3:-statime}"
cd "$wt" || exit 2
git checkout -q -- . && git clean -fdq -e target
export CARGO_TARGET_DIR="$wt/target" CARGO_NET_OFFLINE=true
mkdir -p $crate/tests
feat=""; [ "$crate" = statime ] && feat="--features fuzz"
run_demo() { cargo test -p $crate --offline $feat --test seed_demo 2>&1 | grep -E "^test result|error(\[|:)" | head -3; }
if [ -f "$sd/demo.rs" ]; then cp "$sd/demo.rs" $crate/tests/seed_demo.rs; else echo "no demo.rs (see notes)"; fi
echo "[without change] demo: $(run_demo | tr '\n' ' ')"
git apply "$sd/patch.diff" || { echo "patch does not apply"; exit 3; }
echo "[with change] demo: $(run_demo | tr '\n' ' ')"
rm -f $crate/tests/seed_demo.rs
echo "[with change] suite: $(cargo test --workspace --offline 2>&1 | grep -E '^test result' | head -2 | tr '\n' ' ')"
git checkout -q -- . && git clean -fdq -e target
