#!/usr/bin/env python3
"""Regenerates /verif/MANIFEST.json from the table below (one place to edit)."""
import json

CHECKS = {
 "C03": dict(level="model_checking", engine="E1+E3", design="DESIGN.md 4/C03",
   technique="explicit-state BFS over the real handlers (any-host call orders) plus bounded exhaustive enumeration of frame/timestamp/TLV boundary lattices and of filter measurement sequences, in both build flavours; oracle: every call returns",
   text="(a) Full products of per-message-type boundary lattices (buffer length x messageLength, correctionField, wire and receive/transmit timestamps, sender, stepsRemoved, sequence id, TLV suffixes around every margin) are delivered to real ports in 14 seeded states (listening, master, passive, slave E2E/P2P, faulty, boundary clock, path trace, slave-only, master-only, AML) and followed by a fixed suffix of timer/BMCA calls; (b) all host-call sequences over the node alphabet to a depth bound are explored by BFS on canonical states with the real Kalman filter; (c) all measurement sequences of the C13 alphabet drive both filters. Everything runs in a debug-checks build and, as a child process, in a plain release build. The claim is exhaustive for the stated lattices/depths only.",
   note="Environment models (host, coherent recording clock, TLV providers honouring the documented contract with < and <=) are harness code; panics are attributed by call site (location + first statime frame)."),
 "C05": dict(level="exploration", engine="E3", design="DESIGN.md 4/C05",
   technique="bounded exhaustive enumeration of data-set/port/prior-state combinations through the real PtpInstance::bmca, differential against an independent IEEE 1588 BMCA reference, plus metamorphic order permutations",
   text="Own data set (32 pool combinations + clockClass 6/127/128/248/255) x one to three foreign masters drawn from a two-values-per-comparison-level pool (64/16/8 members) x stepsRemoved {0,1,2,3,254} x sender identity relation (below/above/is-grandmaster/second port of the same clock) x receiving port x prior state (fresh, master by timeout, previous round, faulty, slave-silence-timeout) x master-only/slave-only x run-time quality change; Announces are registered through the real ports and the instance-level BMCA is run. Port states and parent/current/time-properties/path-trace data sets must equal the reference (figures 33-35, tables 30-33, documented deviations); all port-order and arrival-order permutations must give the same outcome.",
   note="Trusted: simcore/src/refbmca.rs. Attribute values matter only through their order; absolute values are covered by the pool's two values per level."),
 "C06": dict(level="model_checking", engine="E1+E2", design="DESIGN.md 4/C06",
   technique="explicit-state BFS over the real handlers on a sequence-id-translated canonical state, deviation-bounded enumeration of 16-interval arrival patterns, exhaustive sweep of all 65536 starting sequence ids; oracle computed from the arrival history",
   text="Event-level BFS (fresh/duplicate/stale/stepsRemoved-255 Announces of two masters, an own-clock sender with our data and one passing on a better grandmaster, BMCA, receipt timeout) from sequence ids 0 and 65533 whose level-by-level state counts must agree; interval-level macro BFS; five 16-interval default patterns with all <=2 (quick) / <=3 (thorough) departures; a regularly announcing master from every one of the 65536 starting ids; 8 and 9 concurrent masters. After every BMCA: a parent has >=2 distinct countable Announces in the window, never the own clock identity; a sustained best master is the parent; a master silent for five intervals is not.",
   note="The exact purge boundary (4 intervals) is not judged: necessity uses 5 intervals, sufficiency 2."),
 "C07": dict(level="model_checking", engine="E1", design="DESIGN.md 4/C07",
   technique="explicit-state BFS over the real handlers; in every explored state every applicable noise frame is judged by one-step unwinding on the complete canonical state",
   text="Every state reachable to a depth bound in seven worlds (E2E/P2P, slave seeds, acceptable-master list, boundary clock) is probed with ~100 noise frames per port (other domain/sdoId/version for every message type, truncated, over-long, odd TLV, own identity, unacceptable master, Sync/Follow_Up/Delay_Resp from non-parents and sibling ports of the parent, responses for other requesters, management/signaling). The frame must produce no action, no clock or filter call, no rng draw and leave the canonical state (all private fields) identical; determinism then gives trace equivalence for all insertion positions along all explored histories.",
   note="Canonical state = Debug text of Port/PtpInstanceState minus the dead packet buffer, plus host timers, pending contexts, provider queues and peer counters."),
 "C08": dict(level="model_checking", engine="E1", design="DESIGN.md 4/C08",
   technique="explicit-state BFS over the real handlers with role invariants evaluated on every transition",
   text="All event sequences over the host-call alphabet (timers, transmit timestamps, BMCA, run-time slave-only/quality changes, Announce from better/worse/own-clock masters, Sync/Follow_Up/Delay_Resp/Delay_Req/Pdelay traffic) to a depth bound for nine instance configurations with 1-3 ports (E2E/P2P, master-only, slave-only, obedient and arbitrary host), with the real Kalman filter and a port-tagged recording clock. Invariants: at most one slave/steering port; clock commands only from the slave port; master-only never slave; slave-only never master (from start / after the next BMCA); frame types by role.",
   note="Depth-bounded, not closed; bounds are in the evidence per world."),
 "C09": dict(level="model_checking", engine="E1+E3", design="DESIGN.md 4/C09",
   technique="explicit-state BFS over the real slave-port handlers with the measurement log in the state; oracle computed from the frames and timestamps actually delivered; plus an exhaustive arithmetic lattice for single exchanges",
   text="All interleavings, duplications and omissions (to a depth bound) of two or three Sync exchanges (two-step Sync, Follow_Up, one-step Sync), delay requests, two transmit-timestamp values, matching/stale/foreign Delay_Resp, with sequence ids around the wrap and three delay asymmetries. Every timestamp and correction is tagged so that a value combined from two exchanges equals no legitimate value; every Measurement handed to the recording filter must be bit-exact for the parts of one exchange that have all arrived, offset = raw - last mean delay, delay = (last raw sync - raw delay)/2. Lattice: one- and two-step exchanges over second/nanosecond boundaries, sub-ns fractions, correction signs, asymmetries.",
   note="The recording filter returns each delay as the mean delay; underflow domain (negative intermediates) belongs to C03/C16."),
 "C10": dict(level="model_checking", engine="E1+E3", design="DESIGN.md 4/C10",
   technique="bounded exhaustive enumeration of timestamp/request-header lattices on real master ports, 65540-emission histories per message type, and a frame monitor on an explicit-state BFS over the real handlers; all frames decoded by the reference codec",
   text="Follow_Up (same id as its Sync, one per reported timestamp also when reported out of order, origin + correction = timestamp to 2^-16 ns), Delay_Resp (requester and id echoed, receive time + request correction), Pdelay_Resp/_Follow_Up (echo, ns-exact times) over timestamps up to 2^48 s with sub-ns fractions and 36 request headers; Pdelay_Req answered in every port state; ids +1 mod 2^16 over 65540 emissions of Sync/Announce/Delay_Req/Pdelay_Req; every frame of every explored transition (13 worlds incl. role changes around armed timers) decodes under the library's own parser and the reference, bears identity/domain/sdoId/version, fits 1024 octets, at most one event send per action set.",
   note="Pdelay times are judged to the nanosecond as the property says."),
 "C11": dict(level="model_checking", engine="E1+E3", design="DESIGN.md 4/C11",
   technique="explicit-state BFS over real boundary clocks with a monitor comparing every emitted Announce (reference-decoded) with the data-set getters and those with the delivered Announces / own attributes; plus a parent-content lattice",
   text="Boundary clocks with two and three ports and a grandmaster world: all sequences (depth bound) of parent content change, parent naming another grandmaster, better master on another port, worse master, parent loss by timeout, quality changes, announce timers, BMCA. Oracles: Announce == getters; an Announce from the current parent is applied at once; after BMCA the data sets equal the parent's last Announce (+1 step) or, when no port is slave, the instance's own current attributes with stepsRemoved 0. Lattice: all 64 time-property flag combinations x 5 UTC offsets, all 256 timeSource octets, quality/priority/stepsRemoved products through a real boundary clock.",
   note="Between an announce receipt timeout and the next BMCA the previous parent's data remain (documented assumption); leap59+leap61 decode as leap59."),
 "C12": dict(level="model_checking", engine="E1", design="DESIGN.md 4/C12",
   technique="explicit-state BFS over the real handlers under an obedient host; from every explored state a deterministic timed continuation (silence / steady better master) with timers fired exactly as armed; timer-dependency invariant on every transition",
   text="Nine worlds (E2E/P2P, slave-only, two ports, boundary clock, recovery from peer-delay faults) explored to a depth bound twice: every reached state is continued under total silence (each port that may be master is master within 2 x receipt timeout + 5 intervals, then Announce and Sync at exactly the configured interval) and under a steadily announcing better master with Sync/Follow_Up and delay service (slave within 5.5 intervals - passive for clockClass < 128 - and delay requests at most 2 intervals apart). Invariant: a listening port has its receipt timer armed, a master port its announce and sync timers, a slave port its delay timer.",
   note="Timers fire at now + armed duration with a fixed rng fraction; ports disabled by a peer-delay fault are excepted as the property says."),
 "C14": dict(level="model_checking", engine="E1", design="DESIGN.md 4/C14",
   technique="explicit-state BFS over the real P2P port handlers with the measurement log in the state; oracle computed from the delivered frames",
   text="P2P port in listening, master, slave and passive base states; all interleavings (depth bound) of two requests, two transmit-timestamp values, two-step and one-step responses and follow-ups of three responders (one a second port of the first responder's clock) for current and previous ids, together with receipt/announce/sync timers, BMCA, Announces (incl. the instance's own lower port), Sync and Delay_Req. Link delay must be bit-exact for one request and one responder; a frame of another responder for the still-current request makes the port faulty at once and is not used; a faulty port emits no master messages, does not steer, and leaves the state only through an exchange answered by exactly one responder.",
   note="A second responder arriving after the next request went out must only have no effect."),
 "C15": dict(level="exploration", engine="E3+E1", design="DESIGN.md 4/C15",
   technique="bounded exhaustive enumeration of TLV type/size/sender/path-length lattices and of all short arrival/timer sequences over a real boundary clock using the daemon's real TlvForwarder, against a reference forwarding queue",
   text="Boundary clock with one slave and one to three master ports; providers: the real statime-linux TlvForwarder (one duplicate per port) and minimal providers honouring the contract with < and <=. Single TLVs (12 type classes x every even length 0..1100 x parent/other/unacceptable sender), pairs of sizes around the remaining room (one or two Announces, with announces in between), all sequences to depth 4|6 over arrivals/announce timers/parent switch, 130-Announce overflow, path lengths 0..200 with loops at every position class and path+TLV filling the frame. Every emitted Announce must carry exactly the reference prefix of the port's queue, fit 1024 octets, be emitted and parse; pathTraceDS equals the received path; a looped Announce changes nothing.",
   note="The main.rs glue is represented by the harness host; tlv_forwarder.empty() in the binary-only ethernet task is not executed."),
 "C18": dict(level="model_checking", engine="E1+E2", design="DESIGN.md 4/C18",
   technique="enumeration of all operation sequences (no deduplication) on the real OverlayClock against an exact fixed-point reference clock, plus deviation-bounded length-50 histories",
   text="All sequences to depth 6|7 over set_frequency {-500,-1,0,1,500}, step_clock {-10 s,-1 ns,0,1 ns,10 s}, advance {0,1 ns,1 s,1e4 s} from starts 10 s, 1e9 s and 2^47 s; a cyclic length-50 history with all <=2 substitutions. After every operation: continuity across frequency changes, exact step size, rate (1+ppm/1e6), return value == now(), time_from_underlying(current) == reading.",
   note="Reference resolution 2^-40 ns, tolerance 2^-20 ns + 2^-30 ns."),
 "C13": dict(level="model_checking", engine="E1", design="DESIGN.md 4/C13",
   technique="enumeration of all measurement sequences over an adversarial alphabet (no deduplication) on the real filters, plus explicit-state BFS at port level for the leave-slave clause",
   text="All sequences up to a length bound over {sync, raw sync, delay, peer} x offsets {0..+-1e9 s} x event-time steps {repeat, +1 ns, +1 s, +1000 s, backwards} and update(), closed by demobilize(), on KalmanFilter (three configurations, three start times) and BasicFilter (two gains), with single/double failing clock calls; every set_frequency/step_clock argument is judged (finite, within max_freq_offset, at least step_threshold). Port level: BFS from slave states with absorbed measurements over every way of leaving slave and every continuation.",
   note="f64 servo code is covered on the alphabet only, not on the continuum."),
 "C16": dict(level="exploration", engine="E3", design="DESIGN.md 4/C16",
   technique="bounded exhaustive enumeration of boundary lattices against exact i128 arithmetic, both build flavours",
   text="Full products of boundary lattices (75 times x 25 durations, all 256 log intervals, 190 TimeInterval bit patterns) through every public Time/Duration/Interval operation, TimeInterval conversions via PortDS+serde, and Time<->wire through a real master port's Follow_Up and a real slave port. Representable results must be bit-exact; unrepresentable ones must not come back as a wrapped value.",
   note="Values off the lattice are not covered; log intervals >= 66 (not representable, never taken off the wire) are out of scope."),
 "C04": dict(level="exploration", engine="E3", design="DESIGN.md 4/C04",
   technique="bounded exhaustive enumeration of a structured byte-string lattice, differential against an independent reference codec",
   text="Every byte string of a stated finite lattice (all type nibbles, all 2^12 defined flag combinations, every value of each 8-bit field, boundary and single-bit values of 16-bit fields, zero/ones/single-byte patterns of wide fields, TLV layouts incl. empty/odd/truncated/trailing, messageLength x buffer-length relations) is decoded by the real parser (FuzzMessage) and judged against an independently written IEEE 1588 codec on acceptance, field placement (read from the Debug tree), re-encoding and reference-level equality. Enumeration is complete for the lattice; it says nothing about byte strings off the lattice.",
   note="Trusted: simcore/src/refcodec.rs and refnames.rs as a reading of IEEE 1588-2019 clauses 13, 14, 15.4.1; documented choices mirrored (unknown types and odd TLV lengths are errors)."),
}

NOT_YET = "check not built yet (planned in DESIGN.md section 4); nothing is claimed for it at this commit"

def main():
    props=[json.loads(l) for l in open('/verif/properties.jsonl')]
    checks=[]
    for p in props:
        c=CHECKS.get(p["id"])
        if not c: continue
        checks.append({
          "property_id":p["id"],
          "quick_cmd":f"./check {p['id']} quick",
          "thorough_cmd":f"./check {p['id']} thorough",
          "evidence_file":f"/verif/evidence/{p['id']}.json",
          "replay_cmd_template":f"./check {p['id']} --replay {{path}}",
          "engine":c["engine"],
          "level_claimed":{"category":c["level"],"text":c["text"],"design_ref":c["design"]},
          "level_note":c["note"],
          "technique":c["technique"],
        })
    m={
     "version":1,
     "setup_cmd":"./setup.sh",
     "hooks":{"guard":"statime_verif",
              "enable":"no source hooks exist: every observation point is public API, the public `fuzz` feature or derived Debug output; the cfg name is only reserved",
              "baseline_off_cmd":"cd /repo && cargo test --workspace --no-fail-fast --offline",
              "source_commits":[],"add_only":True},
     "engines":[
       {"name":"E1","path":"/verif/mc/simcore/src/bfs.rs","kind_free_text":"explicit-state breadth-first search whose transition function is the real port/instance code; states are canonicalised Debug trees, reached by replaying event histories on fresh objects"},
       {"name":"E2","path":"/verif/mc/simcore/src/dev.rs","kind_free_text":"deviation-bounded stateless exploration (CHESS-style iteration over departures from default environment answers) of discrete-event simulations of real instances"},
       {"name":"E3","path":"/verif/mc/checks/src","kind_free_text":"bounded exhaustive enumeration of structured input lattices against independent reference models"},
       {"name":"E4","path":"/verif/loomck","kind_free_text":"loom: exhaustive thread interleavings (preemption-bounded) of real port/instance code over a loom-backed PtpInstanceStateMutex"},
       {"name":"E5","path":"/verif/mc/checks/src/c20.rs","kind_free_text":"exhaustive fault-sequence enumeration against the real metrics-exporter process"},
     ],
     "checks":checks,
     "notes":"see DESIGN.md; known findings in /verif/known_findings.json",
     "not_applicable":[{"property_id":p["id"],"reason":NOT_YET} for p in props if p["id"] not in CHECKS],
    }
    for e in m["engines"]:
        e["serves_properties"]=[k for k,c in CHECKS.items() if c["engine"].startswith(e["name"]) or e["name"] in c["engine"]]
    json.dump(m,open('/verif/MANIFEST.json','w'),indent=1)
    import jsonschema
    jsonschema.validate(m,json.load(open('/root/.vp/MANIFEST.schema.json')))
    print("MANIFEST ok:",len(checks),"checks,",len(m["not_applicable"]),"not applicable")
main()
