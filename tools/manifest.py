#!/usr/bin/env python3
"""Regenerates /verif/MANIFEST.json from the table below (one place to edit)."""
import json

CHECKS = {
 "C04": dict(level="exploration", engine="E3", design="DESIGN.md 4/C04",
   technique="bounded exhaustive enumeration of a structured byte-string lattice, differential against an independent reference codec",
   text="Every byte string of a stated finite lattice (all type nibbles, all 2^12 defined flag combinations, every value of each 8-bit field, boundary and single-bit values of 16-bit fields, zero/ones/single-byte patterns of wide fields, TLV layouts incl. empty/odd/truncated/trailing, messageLength x buffer-length relations) is decoded by the real parser (FuzzMessage) and judged against an independently written IEEE 1588 codec on acceptance, field placement (read from the Debug tree), re-encoding and reference-level equality. Enumeration is complete for the lattice; it says nothing about byte strings off the lattice.",
   note="Trusted: simcore/src/refcodec.rs and refnames.rs as a reading of IEEE 1588-2019 clauses 13, 14, 15.4.1; documented choices mirrored (unknown types and odd TLV lengths are errors)."),
}

NOT_YET = "check not built yet (planned in DESIGN.md section 4); nothing is claimed for it at this commit"

def main():
    props=[json.loads(l) for l in open('/verif/properties.jsonl')]
    checks=[]
    for p in props:
        c=CHECKS.get(p["id"])
        if not c: continue
        checks.append({
          "property_id":p["id"],
          "quick_cmd":f"./check {p['id']} quick",
          "thorough_cmd":f"./check {p['id']} thorough",
          "evidence_file":f"/verif/evidence/{p['id']}.json",
          "replay_cmd_template":f"./check {p['id']} --replay {{path}}",
          "engine":c["engine"],
          "level_claimed":{"category":c["level"],"text":c["text"],"design_ref":c["design"]},
          "level_note":c["note"],
          "technique":c["technique"],
        })
    m={
     "version":1,
     "setup_cmd":"./setup.sh",
     "hooks":{"guard":"statime_verif",
              "enable":"no source hooks exist: every observation point is public API, the public `fuzz` feature or derived Debug output; the cfg name is only reserved",
              "baseline_off_cmd":"cd /repo && cargo test --workspace --no-fail-fast --offline",
              "source_commits":[],"add_only":True},
     "engines":[
       {"name":"E1","path":"/verif/mc/simcore/src/bfs.rs","kind_free_text":"explicit-state breadth-first search whose transition function is the real port/instance code; states are canonicalised Debug trees, reached by replaying event histories on fresh objects"},
       {"name":"E2","path":"/verif/mc/simcore/src/dev.rs","kind_free_text":"deviation-bounded stateless exploration (CHESS-style iteration over departures from default environment answers) of discrete-event simulations of real instances"},
       {"name":"E3","path":"/verif/mc/checks/src","kind_free_text":"bounded exhaustive enumeration of structured input lattices against independent reference models"},
       {"name":"E4","path":"/verif/loomck","kind_free_text":"loom: exhaustive thread interleavings (preemption-bounded) of real port/instance code over a loom-backed PtpInstanceStateMutex"},
       {"name":"E5","path":"/verif/mc/checks/src/c20.rs","kind_free_text":"exhaustive fault-sequence enumeration against the real metrics-exporter process"},
     ],
     "checks":checks,
     "notes":"see DESIGN.md; known findings in /verif/known_findings.json",
     "not_applicable":[{"property_id":p["id"],"reason":NOT_YET} for p in props if p["id"] not in CHECKS],
    }
    for e in m["engines"]:
        e["serves_properties"]=[k for k,c in CHECKS.items() if c["engine"].startswith(e["name"]) or e["name"] in c["engine"]]
    json.dump(m,open('/verif/MANIFEST.json','w'),indent=1)
    import jsonschema
    jsonschema.validate(m,json.load(open('/root/.vp/MANIFEST.schema.json')))
    print("MANIFEST ok:",len(checks),"checks,",len(m["not_applicable"]),"not applicable")
main()
