#!/bin/bash
# usage: tools/seed_regress.sh [out-file]   — applies every stored seed to /repo in turn, runs the
# quick check of its property, reverts; one line per seed.  /repo must be clean; nothing else may
# run checks meanwhile.
out="${1:-/verif/target/seed_regress.txt}"
: > "$out"
for d in /verif/seeded/*/; do
  name=$(basename "$d"); id=${name%%-*}
  patch="$d/patch.diff"; [ -f "$d/patch_rebased_on_fixed_tree.diff" ] && patch="$d/patch_rebased_on_fixed_tree.diff"
  r=$(/verif/tools/seed_check.sh "$patch" "$id" 2>&1 | head -2 | tr '\n' ' ' | cut -c1-200)
  echo "$name $r" >> "$out"
done
echo DONE >> "$out"
