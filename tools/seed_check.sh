#!/bin/bash
# usage: tools/seed_check.sh <patch.diff> <ID> [<ID>...]
# applies the patch to /repo, runs the quick checks, reverts; prints one line per check
patch="$1"; shift
cd /repo || exit 2
if ! git diff --quiet; then echo "/repo has local modifications"; exit 2; fi
if ! git apply --3way "$patch" 2>/tmp/seed_apply.err && ! git apply "$patch" 2>>/tmp/seed_apply.err; then
  echo "PATCH DOES NOT APPLY: $(head -3 /tmp/seed_apply.err | tr '\n' ' ')"; git reset -q --hard HEAD; git clean -fdq -e target; exit 3
fi
git reset -q 2>/dev/null
for id in "$@"; do
  out=$(cd /verif && timeout 1500 ./check "$id" quick 2>&1); rc=$?
  nv=$(echo "$out" | grep -c '^VIOLATION')
  echo "== $id exit=$rc violations=$nv"
  echo "$out" | grep -E '^VIOLATION|signature:' | head -6
done
git reset -q --hard HEAD && git clean -fdq -e target
