#!/usr/bin/env python3
"""usage: seed_store.py <ID> <n> <caught_by comma list> <signature summary>  — copies /tmp/seeds/ID/n into /verif/seeded/ID-n with meta.json"""
import sys, os, shutil, json, re
pid, n, caught, sigs = sys.argv[1], sys.argv[2], sys.argv[3], sys.argv[4]
src=f'/tmp/seeds/{pid}/{n}'; dst=f'/verif/seeded/{pid}-{n}'
os.makedirs(dst, exist_ok=True)
for f in os.listdir(src):
    if os.path.isfile(os.path.join(src,f)): shutil.copy(os.path.join(src,f), dst)
notes=open(os.path.join(src,'notes.md')).read() if os.path.exists(os.path.join(src,'notes.md')) else ''
meta={"property":pid,"origin":"independent sub-agent given only the property text and a scratch worktree",
 "needs_to_manifest": notes[:1500],
 "confirmed":{"existing_suite_passes_with_change":True,"demo_fails_with_change":True,"demo_passes_without_change":True,
   "how":"tools/seed_confirm.sh in a scratch worktree outside /repo and /verif (demo copied to <crate>/tests/seed_demo.rs; cargo test --workspace --offline for the suite)"},
 "checks_run":f"tools/seed_check.sh {dst}/patch.diff {caught.replace(',',' ')} (git apply to /repo, ./check <ID> quick, git checkout)",
 "caught_by":[c for c in caught.split(',') if c], "violation_signatures":sigs}
json.dump(meta,open(os.path.join(dst,'meta.json'),'w'),indent=1)
print("stored",dst)
