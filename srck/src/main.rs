//! Independent state count for E1: the same `System` (real ports behind a world)
//! explored by stateright's breadth-first checker, to the same depth, must have
//! exactly as many unique states as `simcore::bfs::explore` reports.
//!
//! usage: srck <depth>      prints one line `SRRESULT [ {world, depth, e1, stateright}, ... ]`
//! exit 0 when all counts agree, 3 when they differ.

#![allow(dead_code)]

#[path = "/verif/mc/checks/src/c08.rs"]
mod c08;

use std::hash::{Hash, Hasher};
use std::sync::Arc;

use simcore::bfs::{explore, Limits, System};
use simcore::world::*;
use stateright::{Checker, Model, Property};

#[derive(Clone, Debug)]
struct St {
    hist: Vec<Ev>,
    key: u128,
    next: Arc<Vec<Ev>>,
}
impl Hash for St {
    fn hash<H: Hasher>(&self, h: &mut H) {
        self.key.hash(h)
    }
}
impl PartialEq for St {
    fn eq(&self, o: &Self) -> bool {
        self.key == o.key
    }
}
impl Eq for St {}

fn key_of(s: &str) -> u128 {
    // independent of simcore's hash: FNV-1a 128
    let mut h: u128 = 0x6c62272e07bb014262b821756295c58d;
    for b in s.as_bytes() {
        h ^= *b as u128;
        h = h.wrapping_mul(0x0000000001000000000000000000013b);
    }
    h
}

struct Sr<'a, M: Monitor>(&'a WorldSys<'a, M>);

impl<M: Monitor> Model for Sr<'_, M> {
    type State = St;
    type Action = usize;
    fn init_states(&self) -> Vec<St> {
        let o = self.0.run(&[]);
        vec![St { hist: vec![], key: key_of(&o.key), next: Arc::new(o.next) }]
    }
    fn actions(&self, s: &St, a: &mut Vec<usize>) {
        a.extend(0..s.next.len());
    }
    fn next_state(&self, s: &St, a: usize) -> Option<St> {
        let mut h = s.hist.clone();
        h.push(s.next[a].clone());
        let o = self.0.run(&h);
        if o.dead {
            return None;
        }
        Some(St { hist: h, key: key_of(&o.key), next: Arc::new(o.next) })
    }
    fn properties(&self) -> Vec<Property<Self>> {
        vec![Property::always("explore everything", |_, _| true)]
    }
}

fn main() {
    let depth: usize = std::env::args().nth(1).and_then(|s| s.parse().ok()).unwrap_or(3);
    let only: Option<String> = std::env::args().nth(2);
    // stateright's checker threads want 'static models: the worlds live for the whole process
    let mon: &'static c08::RoleMon = Box::leak(Box::new(c08::RoleMon));
    let systems: &'static Vec<_> = Box::leak(Box::new(c08::build("C08", mon, c08::world_defs(), true)));
    let mut out = vec![];
    let mut ok = true;
    for (sys, _) in systems.iter() {
        if let Some(o) = &only {
            if sys.name != *o {
                continue;
            }
        }
        let (st, _) = explore(sys, &Limits { max_depth: depth, max_seconds: 3600.0, max_states: u64::MAX });
        // stateright counts the initial state as depth 1
        let checker = Sr(sys).checker().threads(std::env::var("SRCK_THREADS").ok().and_then(|s| s.parse().ok()).unwrap_or(1)).target_max_depth(depth + 1).spawn_bfs().join();
        let sr = checker.unique_state_count() as u64;
        if sr != st.states {
            ok = false;
        }
        out.push(serde_json::json!({"world": sys.name, "depth": depth, "e1_states": st.states, "stateright_unique_states": sr, "e1_per_depth": st.per_depth_new_states, "stateright_generated": checker.state_count()}));
    }
    println!("SRRESULT {}", serde_json::Value::Array(out));
    std::process::exit(if ok { 0 } else { 3 });
}
