//! C02 — a slave port drives its clock to the master's time and keeps it there.
//! E2 over `Net`: a closed loop of a real master port (perfect clock), a real
//! slave port with the real Kalman filter over a simulated oscillator, and a
//! symmetric link with jitter.  Servo configuration grid x default jitter
//! patterns x every execution with at most k departures (a frame's jitter flipped
//! to the other extreme, or the frame lost).

use rayon::prelude::*;
use serde::{Deserialize, Serialize};
use serde_json::json;
use simcore::harness::*;
use simcore::net::*;
use simcore::report::{Reporter, Tier, Violation};
use statime::observability::port::PortState as PS;

#[derive(Clone, Debug, Serialize, Deserialize)]
pub struct Grid {
    pub offset_ns: i64,
    pub ppm: f64,
    pub delay_ns: u64,
    pub jitter_ns: u64,
    pub log_sync: i8,
    pub log_delay: i8,
    pub pattern: u8,
    #[serde(default)]
    pub tx_ts_latency_ns: u64,
    #[serde(default)]
    pub one_step: bool,
}

/// both local clocks start at this reading (+ the slave's initial offset)
pub const EPOCH_NS: i64 = 1_000_000_000_000;

pub fn spec_of(g: &Grid, horizon_s: u64, window: (u64, u64)) -> NetSpec {
    let mut master = NodeSpec::default();
    master.identity = [0x30, 0, 0, 0, 0, 0, 0, 1];
    master.priority_1 = 10;
    master.ports = vec![PortSpec { log_sync: g.log_sync, log_delay: g.log_delay, ..Default::default() }];
    let mut slave = NodeSpec::default();
    slave.identity = [0x30, 0, 0, 0, 0, 0, 0, 2];
    slave.priority_1 = 200;
    // the delay-request timer is randomised in the field; here its fractions follow the
    // equidistributed sequence frac(n * phi) (started at a point chosen by the pattern), so that
    // Sync and Delay_Req phases sweep past each other.  (A *constant* fraction locks the two in
    // step, the measurement-noise estimator never gets a Sync/Delay_Resp pair within its 200 ms
    // window, and the filter never gives its measurements weight: see DESIGN.md, C02.)
    let cyc: Vec<f64> = (0..4096u32).map(|n| ((n + 1 + 17 * g.pattern as u32) as f64 * 0.618_033_988_749_894_9).fract()).collect();
    slave.ports = vec![PortSpec { log_sync: g.log_sync, log_delay: g.log_delay, rng_cycle: cyc, ..Default::default() }];
    NetSpec {
        nodes: vec![master, slave],
        segments: vec![vec![(0, 0), (1, 0)]],
        bmca_phase_ns: vec![SEC / 10, SEC / 10 + 333_000_000],
        horizon_ns: horizon_s * SEC,
        delay_min_ns: g.delay_ns,
        delay_max_ns: g.delay_ns + g.jitter_ns,
        oscillators: vec![Some((EPOCH_NS, 0.0)), Some((EPOCH_NS + g.offset_ns, g.ppm))],
        kalman: vec![false, true],
        per_frame: Some(Jitter { pattern: g.pattern, seed: simcore::report::seed() as u64, choice_window_ns: (window.0 * SEC, window.1 * SEC) }),
        tx_ts_latency_ns: g.tx_ts_latency_ns,
        one_step: vec![g.one_step, false],
        path_asymmetry_ns: 0,
        overlay: vec![],
    }
}

/// acquisition bound: 600 s after the port became slave, for every configuration (the servo's
/// settling time is set by its own time constants, not by the message interval: slowest observed
/// 267 s on the default realisations, about 150 s at 1/8 s intervals after one lost frame)
fn t_acq(g: &Grid) -> u64 {
    let _ = g;
    600 * SEC
}

/// steady-state bound on |true offset| (J = peak-to-peak jitter), by jitter realisation:
///   constant delay            1 us                (observed: 0)
///   low-discrepancy sequence  1 us + 2 J          (observed over four seeds: at most 0.56 J)
///   strictly alternating      100 us + 2 J        (adversarial: the servo answers long runs of
///                                                  equal samples with bursts; observed 55 us)
/// An execution with departures is still a realisation of jitter inside the same envelope (a
/// flipped frame takes the other extreme of the envelope, a lost frame takes none), so its bound is
/// the bound of its envelope: unchanged for the two jittered patterns, and 1 us + 2 J for a constant
/// delay with flipped frames (whose envelope is then J wide, not 0).
fn bound_bits(g: &Grid, dev: &[(usize, usize)]) -> i128 {
    let j = g.jitter_ns as i128;
    let flipped = dev.iter().any(|d| d.1 == 1);
    let base = match g.pattern {
        _ if g.jitter_ns == 0 => 1_000,
        0 if flipped => 1_000 + 2 * j,
        0 => 1_000,
        1 => 100_000 + 2 * j,
        _ => 1_000 + 2 * j,
    };
    base << 32
}

/// the class of executions a violation belongs to (part of its signature): an otherwise constant
/// delay with isolated frames delayed by J is the history of the known finding (DESIGN.md 8.3)
fn class_of(g: &Grid, dev: &[(usize, usize)]) -> &'static str {
    if g.pattern == 0 && g.jitter_ns > 0 && dev.iter().any(|d| d.1 == 1) {
        ":isolated-outlier-on-constant-delay"
    } else {
        ""
    }
}

pub struct Outcome {
    pub violations: Vec<(String, String)>,
    pub choice_points: Vec<usize>,
    pub settled_at: Option<u64>,
    pub worst_after: i128,
}

pub fn run_one(g: &Grid, dev: &[(usize, usize)], window: (u64, u64), horizon_s: u64) -> Outcome {
    run_spec(g, spec_of(g, horizon_s, window), dev)
}

/// the same loop over a path that is `a` ns slower towards the slave and `a` ns faster back, with
/// the slave port's delayAsymmetry configured to `a`: the corrected path is symmetric again
pub fn run_compensated(g: &Grid, a: i64) -> Outcome {
    let mut spec = spec_of(g, LONG_HORIZON_S / 2, (0, 0));
    spec.path_asymmetry_ns = a;
    spec.nodes[1].ports[0].asymmetry_ns_frac = (a as i128) << 32;
    run_spec(g, spec, &[])
}

/// the same loop with the slave's clock being statime's OverlayClock over a read-only raw
/// oscillator (the daemon's virtual-system-clock configuration)
pub fn run_overlay(g: &Grid) -> Outcome {
    let mut spec = spec_of(g, LONG_HORIZON_S / 2, (0, 0));
    spec.overlay = vec![false, true];
    run_spec(g, spec, &[])
}

fn run_spec(g: &Grid, spec: NetSpec, dev: &[(usize, usize)]) -> Outcome {
    let mut choices = Choices::with(dev);
    let res = simulate(&spec, &[], &mut choices, SEC / 4);
    let mut v = vec![];
    if let Some(p) = &res.panicked {
        return Outcome { violations: vec![("panic".into(), p.clone())], choice_points: res.choice_points, settled_at: None, worst_after: 0 };
    }
    // when did the port become slave?
    let slave_at = res.transitions.iter().find(|t| t.1 == 1 && t.4 == PS::Slave).map(|t| t.0);
    let Some(slave_at) = slave_at else {
        return Outcome { violations: vec![("never-slave".into(), "the port never became slave".into())], choice_points: res.choice_points, settled_at: None, worst_after: 0 };
    };
    let bound = bound_bits(g, dev);
    let class = class_of(g, dev);
    // last snapshot at which the bound is violated, last step command
    let last_bad = res.snapshots.iter().filter(|s| (s.offsets[1] - s.offsets[0]).abs() > bound).map(|s| s.t).max();
    let last_step = res.clock_cmds.iter().filter(|c| c.1 == 1 && matches!(c.3, ClockCmd::Step(_))).map(|c| c.0).max();
    let settled = last_bad.unwrap_or(0).max(last_step.unwrap_or(0));
    let deadline = slave_at + t_acq(g);
    let worst_after = res.snapshots.iter().filter(|s| s.t > deadline).map(|s| (s.offsets[1] - s.offsets[0]).abs()).max().unwrap_or(0);
    if let Some(b) = last_bad {
        if b > deadline {
            let off = res.snapshots.iter().find(|s| s.t == b).map(|s| (s.offsets[1] - s.offsets[0])).unwrap_or(0);
            v.push((
                format!("offset-not-within-bound{class}"),
                format!("true offset is {:.1} ns at t = {:.2} s, more than {:.0} s after the port became slave (bound {:.1} ns)", off as f64 / 4294967296.0, b as f64 / 1e9, t_acq(g) as f64 / 1e9, bound as f64 / 4294967296.0),
            ));
        }
    }
    if let Some(s) = last_step {
        if s > deadline {
            v.push((format!("step-after-convergence{class}"), format!("the clock was stepped at t = {:.2} s, more than {:.0} s after the port became slave", s as f64 / 1e9, t_acq(g) as f64 / 1e9)));
        }
    }
    // commands stay finite and within the servo's range
    for c in res.clock_cmds.iter().filter(|c| c.1 == 1) {
        if let ClockCmd::SetFreq(p) = c.3 {
            if !p.is_finite() || p.abs() > 400.0 + 1e-9 {
                v.push(("frequency-out-of-range".to_string(), format!("{p} ppm at t = {}", c.0)));
                break;
            }
        }
    }
    Outcome { violations: v, choice_points: res.choice_points, settled_at: Some(settled.saturating_sub(slave_at)), worst_after }
}

/// a better master (clock 3 ms away from the first one's) joins the segment after the slave has
/// converged: the BMCA re-targets the slave port, and the slave's clock then reaches the new
/// master's time and stays there, under the same bounds counted from the change of parent
pub fn run_failover(g: &Grid) -> Vec<(String, String)> {
    let mut spec = spec_of(g, 0, (0, 0));
    let mut better = NodeSpec::default();
    better.identity = [0x30, 0, 0, 0, 0, 0, 0, 3];
    better.priority_1 = 5;
    better.ports = vec![PortSpec { log_sync: g.log_sync, log_delay: g.log_delay, ..Default::default() }];
    spec.nodes.push(better);
    spec.segments = vec![vec![(0, 0), (1, 0), (2, 0)]];
    spec.bmca_phase_ns.push(SEC / 10 + 666_000_000);
    spec.oscillators.push(Some((EPOCH_NS + 3_000_000, 0.0)));
    spec.kalman.push(false);
    spec.one_step.push(g.one_step);
    let t_join = 300 * SEC;
    spec.horizon_ns = t_join + t_acq(g) + 200 * SEC;
    let faults = vec![(0, Fault::Silence(2)), (t_join, Fault::Unsilence(2))];
    let res = simulate(&spec, &faults, &mut Choices::default(), SEC / 4);
    if let Some(p) = &res.panicked {
        return vec![("panic".into(), p.clone())];
    }
    let b_id = spec.nodes[2].identity;
    let Some(t_sw) = res.snapshots.iter().find(|s| s.t >= t_join && s.nodes[1].parent.clock == b_id && s.nodes[1].states[0] == PS::Slave).map(|s| s.t) else {
        return vec![("failover:never-slave-of-the-better-master".into(), format!("a better master announces from t = {} s on; the slave port's parent is still {:?} at the horizon", t_join / SEC, res.snapshots.last().map(|s| s.nodes[1].parent.clone())))];
    };
    let mut v = vec![];
    let bound = bound_bits(g, &[]);
    let deadline = t_sw + t_acq(g);
    if let Some(s) = res.snapshots.iter().filter(|s| s.t > deadline && (s.offsets[1] - s.offsets[2]).abs() > bound).last() {
        v.push((
            "failover:offset-to-new-master-not-within-bound".into(),
            format!("the parent changed at t = {:.2} s; the true offset to the new master is {:.1} ns at t = {:.2} s (bound {:.1} ns)", t_sw as f64 / 1e9, (s.offsets[1] - s.offsets[2]) as f64 / 4294967296.0, s.t as f64 / 1e9, bound as f64 / 4294967296.0),
        ));
    }
    if let Some(c) = res.clock_cmds.iter().filter(|c| c.1 == 1 && c.0 > deadline && matches!(c.3, ClockCmd::Step(_))).last() {
        v.push(("failover:step-after-convergence".into(), format!("the clock was stepped at t = {:.2} s, more than {:.0} s after the parent changed", c.0 as f64 / 1e9, t_acq(g) as f64 / 1e9)));
    }
    v
}

pub fn grid(tier: Tier) -> Vec<Grid> {
    let mut out = vec![];
    let offsets: Vec<i64> = if tier == Tier::Thorough { vec![-10_000_000_000, -1_000_000_000, -30_000_000, -900_000, 0, 500_000, 300_000_000, 2_500_000_000, 10_000_000_000] } else { vec![-10_000_000_000, -900_000, 0, 300_000_000, 2_500_000_000] };
    let ppms: Vec<f64> = if tier == Tier::Thorough { vec![-150.0, -20.0, 0.0, 20.0, 150.0] } else { vec![-150.0, 0.0, 20.0] };
    let delays: Vec<u64> = if tier == Tier::Thorough { vec![1_000, 100_000, 400_000] } else { vec![1_000, 400_000] };
    let jitters: Vec<u64> = vec![0, 2_000, 20_000];
    let intervals: Vec<(i8, i8)> = if tier == Tier::Thorough { vec![(-3, -3), (0, 0), (1, 1), (-3, 1), (1, -3)] } else { vec![(-3, -3), (0, 0), (1, 1)] };
    for &o in &offsets {
        for &p in &ppms {
            for &d in &delays {
                for &j in &jitters {
                    for &(ls, ld) in &intervals {
                        for pattern in 0..3u8 {
                            if j == 0 && pattern > 0 {
                                continue;
                            }
                            // transmit timestamps reported 5 us after the frame left: with a 1 us path
                            // the Delay_Resp is back before the Delay_Req's own timestamp
                            let lat = if d == 1_000 { 5_000 } else { 0 };
                            if tier == Tier::Thorough && d == 1_000 {
                                out.push(Grid { offset_ns: o, ppm: p, delay_ns: d, jitter_ns: j, log_sync: ls, log_delay: ld, pattern, tx_ts_latency_ns: 0, one_step: false });
                            }
                            if tier == Tier::Quick && (out.len() % 3 != 0) && !(ls == 1 && j == 20_000) {
                                // quick: a third of the grid, but every slow-interval/high-jitter point
                                out.push(Grid { offset_ns: o, ppm: p, delay_ns: d, jitter_ns: j, log_sync: ls, log_delay: ld, pattern: 255, tx_ts_latency_ns: lat, one_step: false });
                                continue;
                            }
                            out.push(Grid { offset_ns: o, ppm: p, delay_ns: d, jitter_ns: j, log_sync: ls, log_delay: ld, pattern, tx_ts_latency_ns: lat, one_step: false });
                            // the same point behind a one-step master (quick: a third of them)
                            if tier == Tier::Thorough || out.len() % 3 == 0 {
                                out.push(Grid { offset_ns: o, ppm: p, delay_ns: d, jitter_ns: j, log_sync: ls, log_delay: ld, pattern, tx_ts_latency_ns: lat, one_step: true });
                            }
                        }
                    }
                }
            }
        }
    }
    out.retain(|g| g.pattern != 255);
    out
}

/// horizon of the default executions
const LONG_HORIZON_S: u64 = 1800;
/// horizon of the few executions that run past the wrap of the Delay_Req sequence ids at 2^-3 s
const VERY_LONG_HORIZON_S: u64 = 9000;

fn horizon(g: &Grid) -> u64 {
    if let Some(h) = std::env::var("VERIF_C02_REPLAY_HORIZON_S").ok().and_then(|s| s.parse().ok()) {
        return h;
    }
    (t_acq(g) / SEC) + 12 + 60
}

/// executions with departures in the steady-state window are followed for four minutes after the
/// window: a drift that ends in a step takes up to two minutes to get there
fn horizon_for(g: &Grid, w: (u64, u64)) -> u64 {
    if w.0 > 100 {
        horizon(g).max(w.1 + 240)
    } else {
        horizon(g)
    }
}

pub fn run(tier: Tier) -> i32 {
    let mut rep = Reporter::new("C02", tier, "model_checking");
    let gs = grid(tier);
    for g in gs.iter().step_by(gs.len() / 6 + 1) {
        assert_deterministic(&spec_of(g, 60, (6, 12)), &[], &[], SEC / 4);
        assert_deterministic(&spec_of(g, 60, (6, 12)), &[], &[(5, 1)], SEC / 4);
    }
    if std::env::var("C02_CALIBRATE").is_ok() {
        let rows: Vec<String> = grid(Tier::Thorough)
            .par_iter()
            .map(|g| {
                let o = run_one(g, &[], (0, 0), LONG_HORIZON_S);
                if let Ok(h) = std::env::var("C02_BUCKETS") {
                    let h: u64 = h.parse().unwrap();
                    let spec = spec_of(g, h, (0, 0));
                    let res = simulate(&spec, &[], &mut Choices::with(&[]), SEC / 4);
                    let mut b = vec![0f64; (h / 50) as usize + 1];
                    for s in &res.snapshots {
                        let i = (s.t / (50 * SEC)) as usize;
                        b[i] = b[i].max(((s.offsets[1] - s.offsets[0]).abs() as f64) / 4294967296.0);
                    }
                    let steps: Vec<u64> = res.clock_cmds.iter().filter(|c| c.1 == 1 && matches!(c.3, ClockCmd::Step(_))).map(|c| c.0 / SEC).collect();
                    return format!("BUK {} {} {} {} {} {} {} {:?} steps {:?}", g.offset_ns, g.ppm, g.delay_ns, g.jitter_ns, g.log_sync, g.log_delay, g.pattern, b.iter().map(|x| x.round() as i64).collect::<Vec<_>>(), steps);
                }
                format!("CAL {} {} {} {} {} {} {} lat{} settle_s={:.1} worst_ns={:.1}", g.offset_ns, g.ppm, g.delay_ns, g.jitter_ns, g.log_sync, g.log_delay, g.pattern, g.tx_ts_latency_ns, o.settled_at.unwrap_or(u64::MAX) as f64 / 1e9, o.worst_after as f64 / 4294967296.0)
            })
            .collect();
        for r in rows {
            println!("{r}");
        }
        return 0;
    }
    // iterative deviation bounding under a wall-clock budget.
    //   bound 0: the default execution of every grid point (always complete);
    //   bound 1: every single departure among the frames of an acquisition window and of a
    //            steady-state window (quick: every 4th point, acquisition window only);
    //   bound 2: every pair, grid points in a scattered order, until the budget is used up.
    let budget_s: f64 = std::env::var("VERIF_C02_BUDGET_S").ok().and_then(|s| s.parse().ok()).unwrap_or(tier.pick(40.0, 1200.0));
    let windows_of = |g: &Grid| -> Vec<(u64, u64)> { if tier == Tier::Thorough { vec![(6, 12), (t_acq(g) / SEC + 15, t_acq(g) / SEC + 19)] } else { vec![(6, 12)] } };
    type R = (u64, Vec<Violation>, Option<u64>, i128, usize);
    let viol = |g: &Grid, w: (u64, u64), dev: &[(usize, usize)], v: Vec<(String, String)>, viols: &mut Vec<Violation>| {
        for (sig, msg) in v {
            if !viols.iter().any(|x| x.signature == sig) {
                let fo = sig.starts_with("failover:");
                viols.push(Violation { signature: sig, message: format!("{msg} [grid point {:?}; choice window {:?} s; deviations {:?}]", g, w, dev), replay: json!({"grid": g, "dev": dev, "window": [w.0, w.1], "failover": fo}) });
            }
        }
    };
    // bound 0
    let mut results: Vec<R> = gs
        .par_iter()
        .map(|g| {
            let mut viols = vec![];
            // the default execution is followed for half an hour of simulated time ("stays below it")
            let o = run_one(g, &[], (0, 0), LONG_HORIZON_S);
            viol(g, (0, 0), &[], o.violations, &mut viols);
            (1, viols, o.settled_at, o.worst_after, 0)
        })
        .collect();
    // a few very long default executions at the fastest rates: more than 65536 Delay_Req (the
    // port's sequence ids wrap) while the loop stays locked
    {
        let long: Vec<Grid> = [(-150.0f64, 0u64), (150.0, 2_000)]
            .iter()
            .map(|&(ppm, j)| Grid { offset_ns: 500_000, ppm, delay_ns: 400_000, jitter_ns: j, log_sync: -3, log_delay: -3, pattern: if j == 0 { 0 } else { 2 }, tx_ts_latency_ns: 0, one_step: false })
            .collect();
        let r: Vec<R> = long
            .par_iter()
            .map(|g| {
                let mut viols = vec![];
                let o = run_one(g, &[], (0, 0), VERY_LONG_HORIZON_S);
                viol(g, (0, VERY_LONG_HORIZON_S), &[], o.violations, &mut viols);
                (1, viols, None, o.worst_after, 0)
            })
            .collect();
        results.extend(r);
        rep.cover("very_long_executions", json!({"count": long.len(), "horizon_s": VERY_LONG_HORIZON_S}));
    }
    // compensated asymmetric paths (delayAsymmetry configured to the path's asymmetry)
    {
        let pts: Vec<(Grid, i64)> = [(20.0f64, 100_000u64, 2_000u64, 0i8, 2u8, false, 60_000i64), (-150.0, 100_000, 0, -3, 0, true, -35_000), (0.0, 400_000, 2_000, 1, 2, false, -250_000)]
            .iter()
            .map(|&(ppm, d, j, l, pat, os, a)| (Grid { offset_ns: -900_000, ppm, delay_ns: d, jitter_ns: j, log_sync: l, log_delay: l, pattern: pat, tx_ts_latency_ns: 0, one_step: os }, a))
            .collect();
        let r: Vec<R> = pts
            .par_iter()
            .map(|(g, a)| {
                let mut viols = vec![];
                let o = run_compensated(g, *a);
                let v = o.violations.into_iter().map(|(s, m)| (format!("compensated-asymmetry:{s}"), format!("{m} [path asymmetry {a} ns, delayAsymmetry {a} ns]"))).collect();
                viol(g, (0, 0), &[], v, &mut viols);
                (1, viols, None, 0, 0)
            })
            .collect();
        results.extend(r);
        rep.cover("compensated_asymmetric_path_executions", json!(pts.len()));
    }
    // the slave's clock is an OverlayClock (ahead of and behind the master at the start)
    {
        let pts: Vec<Grid> = [(7_300_000_000i64, 120.0f64, 100_000u64, 2_000u64, 0i8, 2u8, false), (800_000_000, 20.0, 1_000, 0, 0, 0, true), (-2_500_000_000, -150.0, 400_000, 2_000, -3, 2, false), (500_000, 0.0, 100_000, 20_000, 1, 2, false)]
            .iter()
            .map(|&(o, ppm, d, j, l, pat, os)| Grid { offset_ns: o, ppm, delay_ns: d, jitter_ns: j, log_sync: l, log_delay: l, pattern: pat, tx_ts_latency_ns: 0, one_step: os })
            .collect();
        let r: Vec<R> = pts
            .par_iter()
            .map(|g| {
                let mut viols = vec![];
                let o = run_overlay(g);
                let v = o.violations.into_iter().map(|(s, m)| (format!("overlay-clock:{s}"), format!("{m} [slave clock = OverlayClock over the raw oscillator]"))).collect();
                viol(g, (0, 0), &[], v, &mut viols);
                (1, viols, None, 0, 0)
            })
            .collect();
        results.extend(r);
        rep.cover("overlay_clock_executions", json!(pts.len()));
    }
    // master change: a better master joins after convergence
    {
        let pts: Vec<Grid> = [(20.0f64, 100_000u64, 2_000u64, 0i8, 2u8, false), (-150.0, 1_000, 0, -3, 0, false), (150.0, 400_000, 20_000, 1, 2, true), (0.0, 1_000, 20_000, -1, 1, false)]
            .iter()
            .map(|&(ppm, d, j, l, pat, os)| Grid { offset_ns: 500_000, ppm, delay_ns: d, jitter_ns: j, log_sync: l, log_delay: l, pattern: pat, tx_ts_latency_ns: 0, one_step: os })
            .collect();
        let r: Vec<R> = pts
            .par_iter()
            .map(|g| {
                let mut viols = vec![];
                viol(g, (0, 0), &[], run_failover(g), &mut viols);
                (1, viols, None, 0, 0)
            })
            .collect();
        results.extend(r);
        rep.cover("master_change_executions", json!(pts.len()));
    }
    // the recorded history of the known finding (DESIGN.md 8.3), in every tier: a constant delay,
    // one frame of the steady-state window delayed by J
    {
        let g = Grid { offset_ns: -30_000_000, ppm: 150.0, delay_ns: 1_000, jitter_ns: 20_000, log_sync: 1, log_delay: 1, pattern: 0, tx_ts_latency_ns: 5_000, one_step: true };
        let w = (t_acq(&g) / SEC + 15, t_acq(&g) / SEC + 19);
        let dev = vec![(2usize, 1usize)];
        let mut viols = vec![];
        let o = run_one(&g, &dev, w, horizon_for(&g, w));
        viol(&g, w, &dev, o.violations, &mut viols);
        results.push((1, viols, None, 0, 0));
    }
    // bounds 1 and 2
    /// returns false when the wall-clock budget ran out before the enumeration was complete
    fn explore(g: &Grid, w: (u64, u64), h: u64, prefix: &mut Vec<(usize, usize)>, pts: &[usize], k: usize, execs: &mut u64, out: &mut Vec<(Vec<(usize, usize)>, Vec<(String, String)>)>, over: &dyn Fn() -> bool) -> bool {
        if prefix.len() >= k {
            return true;
        }
        let start = prefix.last().map(|x| x.0 + 1).unwrap_or(0);
        for i in start..pts.len() {
            for alt in 1..pts[i] {
                if over() {
                    return false;
                }
                prefix.push((i, alt));
                let o = run_one(g, prefix, w, h);
                *execs += 1;
                if !o.violations.is_empty() {
                    out.push((prefix.clone(), o.violations));
                }
                let done = prefix.len() >= k || explore(g, w, h, prefix, &o.choice_points, k, execs, out, over);
                prefix.pop();
                if !done {
                    return false;
                }
            }
        }
        true
    }
    // the budget is for bounds 1 and 2 (bound 0 above is always complete)
    let started = std::time::Instant::now();
    // scattered order: consecutive grid points differ in one coordinate only
    let n = gs.len();
    let order: Vec<usize> = (0..n).map(|i| (i * 7919) % n).collect();
    let pass = |k: usize, every: usize, budget: f64| -> Vec<Option<R>> {
        order
            .par_iter()
            .enumerate()
            .map(|(oi, &gi)| {
                if oi % every != 0 {
                    return None;
                }
                if started.elapsed().as_secs_f64() > budget {
                    return None;
                }
                let g = &gs[gi];
                let mut execs = 0;
                let mut viols = vec![];
                let mut points = 0;
                let mut complete = true;
                // quick has no budget inside a grid point (the same set on every run)
                let over = || tier == Tier::Thorough && started.elapsed().as_secs_f64() > budget;
                for w in windows_of(g) {
                    let h = horizon_for(g, w);
                    let base = run_one(g, &[], w, h);
                    execs += 1;
                    points = points.max(base.choice_points.len());
                    let mut found = vec![];
                    complete &= explore(g, w, h, &mut vec![], &base.choice_points, k, &mut execs, &mut found, &over);
                    for (dev, v) in found {
                        viol(g, w, &dev, v, &mut viols);
                    }
                }
                // an unfinished point still contributes its executions and findings, but is not
                // counted as covered at this bound
                Some((execs, viols, None, 0, if complete { points } else { usize::MAX }))
            })
            .collect()
    };
    let r1 = pass(1, tier.pick(4, 1), budget_s * 0.7);
    let at1 = r1.iter().filter(|r| matches!(r, Some(x) if x.4 != usize::MAX)).count();
    results.extend(r1.into_iter().flatten());
    let mut at2 = 0;
    if tier == Tier::Thorough {
        let r2 = pass(2, 1, budget_s);
        at2 = r2.iter().filter(|r| matches!(r, Some(x) if x.4 != usize::MAX)).count();
        results.extend(r2.into_iter().flatten());
    }
    let wanted1 = (n + tier.pick(4, 1) - 1) / tier.pick(4, 1);
    if at1 < wanted1 {
        rep.assume(format!("deviation bound 1 was completed for {at1} of {wanted1} grid points within the wall-clock budget ({budget_s} s)"));
    }
    let k = if at1 == n { if at2 == n { 2 } else { 1 } } else { 0 };
    rep.cover("grid_points_at_bound_1", json!(at1));
    rep.cover("grid_points_at_bound_2", json!(at2));
    let mut execs = 0;
    let mut slowest = 0u64;
    let mut worst = 0i128;
    let mut max_points = 0;
    let mut sigs: std::collections::BTreeMap<String, Violation> = Default::default();
    for (e, v, s, w, p) in results {
        execs += e;
        slowest = slowest.max(s.unwrap_or(0));
        worst = worst.max(w);
        if p != usize::MAX {
            max_points = max_points.max(p);
        }
        for x in v {
            sigs.entry(x.signature.clone()).or_insert(x);
        }
    }
    rep.violations(sigs.into_values());
    rep.cover("states", json!(execs));
    rep.cover("transitions", json!(execs));
    rep.cover("traces_validated_against_impl", json!(execs));
    rep.cover("grid_points", json!(gs.len()));
    rep.cover("executions", json!(execs));
    rep.cover("deviation_bound_completed_for_all_grid_points", json!(k));
    rep.cover("max_choice_points_per_execution", json!(max_points));
    rep.cover("slowest_default_settling_s_after_slave", json!(slowest as f64 / 1e9));
    rep.cover("worst_offset_after_deadline_ns", json!(worst as f64 / 4294967296.0));
    rep.cover("exhaustive", json!(true));
    rep.cover("samples", json!(gs.iter().step_by(gs.len() / 4 + 1).map(|g| json!(g)).collect::<Vec<_>>()));
    rep.assume("'states'/'transitions' count complete closed-loop executions (each one trace of a real master port, a real slave port and the real Kalman filter); the slave's clock is an exact oscillator model steered only through statime::Clock");
    rep.assume("bounds: |true offset| <= 1 us (constant delay) / 1 us + 2 J (low-discrepancy jitter) / 100 us + 2 J (strictly alternating jitter), an execution with departures has the bound of its envelope (constant delay with flipped frames: 1 us + 2 J), from 600 s after the port became slave until the horizon (1800 s for the default executions, 60 s after the deadline for departures in the acquisition window, 240 s after the window for departures in the steady-state window), no step after that deadline; symmetric path; two-step master (the repository's own) and the same master turned one-step by the link");
    rep.finish()
}

pub fn replay(r: &serde_json::Value) {
    let g: Grid = serde_json::from_value(r["grid"].clone()).expect("grid");
    if r["failover"].as_bool() == Some(true) {
        println!("grid {:?}, a better master joins at t = 300 s", g);
        for (s, m) in run_failover(&g) {
            println!("VIOLATION {s} :: {m}");
        }
        return;
    }
    let dev: Vec<(usize, usize)> = serde_json::from_value(r["dev"].clone()).unwrap_or_default();
    let w: (u64, u64) = match r["window"].as_array() {
        Some(a) if a.len() == 2 => (a[0].as_u64().unwrap_or(0), a[1].as_u64().unwrap_or(0)),
        _ => {
            if dev.is_empty() {
                (0, 0)
            } else {
                (6, 12)
            }
        }
    };
    {
        let hz = if dev.is_empty() && w == (0, VERY_LONG_HORIZON_S) { VERY_LONG_HORIZON_S } else if dev.is_empty() && w == (0, 0) { LONG_HORIZON_S } else { horizon_for(&g, w) };
        let w = if w == (0, VERY_LONG_HORIZON_S) { (0, 0) } else { w };
        let spec = spec_of(&g, hz, w);
        let mut choices = Choices::with(&dev);
        let res = simulate(&spec, &[], &mut choices, SEC / 4);
        for t in &res.transitions {
            println!("t={:.3} node {} port {} {:?} -> {:?}", t.0 as f64 / 1e9, t.1, t.2, t.3, t.4);
        }
        let mut ci = 0;
        for s in res.snapshots.iter() {
            while ci < res.clock_cmds.len() && res.clock_cmds[ci].0 <= s.t {
                let c = &res.clock_cmds[ci];
                if c.1 == 1 {
                    println!("   t={:.4} cmd {:?} ok={}", c.0 as f64 / 1e9, c.3, c.4);
                }
                ci += 1;
            }
            if s.t % SEC == 0 {
                println!("t={:.2} offset {:.1} ns", s.t as f64 / 1e9, (s.offsets[1] - s.offsets[0]) as f64 / 4294967296.0);
            }
        }
    }
    let o = run_one(&g, &dev, w, if dev.is_empty() && w == (0, 0) { LONG_HORIZON_S } else { horizon_for(&g, w) });
    println!("grid {:?} deviations {:?}: settled {:?} ns after slave, worst offset after the deadline {:.1} ns", g, dev, o.settled_at, o.worst_after as f64 / 4294967296.0);
    for (s, m) in o.violations {
        println!("VIOLATION {s} :: {m}");
    }
}
