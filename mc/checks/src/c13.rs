//! C13 — clock control commands stay finite and within configured bounds.
//! E1 without deduplication (= all sequences) over a measurement alphabet on the
//! real `KalmanFilter` / `BasicFilter` through the public `Filter` trait, plus a
//! port-level exploration of the "stops being slave" clause.

use rayon::prelude::*;
use serde::{Deserialize, Serialize};
use serde_json::json;
use simcore::harness::*;
use simcore::report::{catch, Reporter, Tier, Violation};
use simcore::scen::state_name;
use simcore::world::*;
use statime::filters::{BasicFilter, Filter, KalmanConfiguration, KalmanFilter};
use statime::port::Measurement;
use statime::time::{Duration, Time};
use statime::Clock;

use crate::c08::{build, WorldDef};

#[derive(Clone, Copy, Debug, PartialEq, Eq, Serialize, Deserialize)]
pub enum Kind {
    /// raw sync offset and offset (mean delay known)
    Sync,
    /// raw sync offset only
    SyncRaw,
    /// raw delay offset and delay
    Delay,
    Peer,
}

#[derive(Clone, Copy, Debug, PartialEq, Eq, Serialize, Deserialize)]
pub enum FEv {
    /// kind, offset (ns), event-time step (ns)
    M(Kind, i64, i64),
    Update,
}

pub const OFFSETS_FULL: [i64; 11] =
    [0, 1, -1, 900_000, -900_000, 1_100_000, -1_100_000, 1_000_000_000, -1_000_000_000, 1_000_000_000_000_000_000, -1_000_000_000_000_000_000];
pub const OFFSETS_PRUNED: [i64; 5] = [0, 1_100_000, -1_100_000, 1_000_000_000_000_000_000, -1_000_000_000_000_000_000];
pub const DT_FULL: [i64; 5] = [0, 1, 1_000_000_000, 1_000_000_000_000, -1_000_000_000];
pub const DT_PRUNED: [i64; 3] = [0, 1_000_000_000, -1_000_000_000];

pub fn alphabet(full: bool) -> Vec<FEv> {
    let mut v = vec![];
    let (offs, dts): (&[i64], &[i64]) = if full { (&OFFSETS_FULL, &DT_FULL) } else { (&OFFSETS_PRUNED, &DT_PRUNED) };
    let kinds: &[Kind] = if full { &[Kind::Sync, Kind::SyncRaw, Kind::Delay, Kind::Peer] } else { &[Kind::Sync, Kind::Delay, Kind::Peer] };
    for &k in kinds {
        for &o in offs {
            for &d in dts {
                v.push(FEv::M(k, o, d));
            }
        }
    }
    v.push(FEv::Update);
    v
}

/// coherent recording clock: `now` never lags behind the event times the filter
/// has been shown, and moves with every step it is told to make
struct FClock {
    now: Time,
    log: Vec<(ClockCmd, bool)>,
    calls: u64,
    fail: Vec<u64>,
}
impl Clock for FClock {
    type Error = ClockFail;
    fn now(&self) -> Time {
        self.now
    }
    fn step_clock(&mut self, offset: Duration) -> Result<Time, ClockFail> {
        let n = self.calls;
        self.calls += 1;
        let ok = !self.fail.contains(&n);
        self.log.push((ClockCmd::Step(offset), ok));
        if ok {
            // a real clock stays inside its own range (the property's timestamp domain [0, 2^63 ns))
            self.now = (self.now + offset).min(Time::from_nanos((1 << 63) - 1));
            Ok(self.now)
        } else {
            Err(ClockFail)
        }
    }
    fn set_frequency(&mut self, ppm: f64) -> Result<Time, ClockFail> {
        let n = self.calls;
        self.calls += 1;
        let ok = !self.fail.contains(&n);
        self.log.push((ClockCmd::SetFreq(ppm), ok));
        if ok {
            Ok(self.now)
        } else {
            Err(ClockFail)
        }
    }
    fn set_properties(&mut self, _t: &statime::config::TimePropertiesDS) -> Result<(), ClockFail> {
        Ok(())
    }
}

pub struct FRun {
    pub cmds: Vec<(usize, ClockCmd, bool)>, // (index of the call that issued it; seq.len() = demobilize)
    pub panic: Option<(usize, simcore::report::Caught)>,
    pub estimates_ok: bool,
}

fn measurement(k: Kind, off_ns: i64, t: Time) -> Measurement {
    let d = Duration::from_nanos(off_ns);
    let mut m = Measurement { event_time: t, ..Default::default() };
    match k {
        Kind::Sync => {
            m.raw_sync_offset = Some(d);
            m.offset = Some(d);
        }
        Kind::SyncRaw => m.raw_sync_offset = Some(d),
        Kind::Delay => {
            m.raw_delay_offset = Some(d);
            m.delay = Some(d);
        }
        Kind::Peer => m.peer_delay = Some(d),
    }
    m
}

pub fn run_filter<F: Filter>(cfg: F::Config, start_ns: u64, seq: &[FEv], fail: &[u64]) -> FRun {
    let mut clock = FClock { now: Time::from_nanos(start_ns), log: vec![], calls: 0, fail: fail.to_vec() };
    let mut out = FRun { cmds: vec![], panic: None, estimates_ok: true };
    let mut filter = Some(F::new(cfg));
    let mut t = Time::from_nanos(start_ns);
    for (i, ev) in seq.iter().enumerate() {
        let before = clock.log.len();
        let r = catch(|| {
            let f = filter.as_mut().unwrap();
            match *ev {
                FEv::M(k, off, dt) => {
                    t = t + Duration::from_nanos(dt);
                    if t > clock.now {
                        clock.now = t;
                    }
                    let _ = f.measurement(measurement(k, off, t), &mut clock);
                }
                FEv::Update => {
                    let _ = f.update(&mut clock);
                }
            }
            let e = f.current_estimates();
            let _ = (e.offset_from_master, e.mean_delay);
        });
        for (c, ok) in &clock.log[before..] {
            out.cmds.push((i, c.clone(), *ok));
        }
        if let Err(p) = r {
            out.panic = Some((i, p));
            return out;
        }
    }
    let before = clock.log.len();
    let r = catch(|| filter.take().unwrap().demobilize(&mut clock));
    for (c, ok) in &clock.log[before..] {
        out.cmds.push((seq.len(), c.clone(), *ok));
    }
    if let Err(p) = r {
        out.panic = Some((seq.len(), p));
    }
    out
}

#[derive(Clone, Copy, Debug, PartialEq, Serialize, Deserialize)]
pub struct KCfg {
    pub max_freq: f64,
    pub step_threshold_ns: i64,
}

pub fn kalman_cfg(k: KCfg) -> KalmanConfiguration {
    KalmanConfiguration { max_freq_offset: k.max_freq, step_threshold: Duration::from_nanos(k.step_threshold_ns), ..Default::default() }
}

fn judge(filter: &str, kc: Option<KCfg>, start: u64, seq: &[FEv], fail: &[u64], r: &FRun, panics: &mut Vec<Violation>, bounds: &mut Vec<Violation>) {
    let replay = json!({"kind": "filter", "filter": filter, "kalman": kc, "start_ns": start, "seq": seq, "fail": fail});
    if let Some((i, p)) = &r.panic {
        let what = if *i == seq.len() { "demobilize".to_string() } else { format!("{:?}", seq[*i]).split('(').next().unwrap().to_string() };
        panics.push(Violation {
            signature: format!("filter/{filter}:{what}:{}", p.signature()),
            message: format!("{filter} panicked in call {i} of {:?} (start {start} ns, failing clock calls {:?}): {} at {}", seq, fail, p.message, p.location),
            replay: replay.clone(),
        });
    }
    let mut demob_freq = 0;
    for (i, c, _ok) in &r.cmds {
        match c {
            ClockCmd::SetFreq(x) => {
                if !x.is_finite() {
                    bounds.push(Violation {
                        signature: format!("{filter}:set_frequency-non-finite"),
                        message: format!("{filter} programmed frequency {x} in call {i} of {:?} (start {start} ns)", seq),
                        replay: replay.clone(),
                    });
                } else if let Some(k) = kc {
                    if x.abs() > k.max_freq * (1.0 + 1e-12) {
                        bounds.push(Violation {
                            signature: format!("{filter}:set_frequency-beyond-max"),
                            message: format!("{filter} programmed {x} ppm, max_freq_offset {} in call {i} of {:?}", k.max_freq, seq),
                            replay: replay.clone(),
                        });
                    }
                }
                if *i == seq.len() {
                    demob_freq += 1;
                }
            }
            ClockCmd::Step(d) => {
                if let Some(k) = kc {
                    let thr = (k.step_threshold_ns as i128) << 32;
                    // Duration::from_seconds(f64) goes through seconds in 2^-32 s units (0.233 ns)
                    // before it scales to nanoseconds and truncates toward zero: a step of exactly
                    // the threshold arrives up to one such unit short (1 ms -> 999999.931 ns)
                    let quantum: i128 = 1_000_000_000; // 2^-32 s in 2^-32 ns units
                    if dur_to_bits(*d).unsigned_abs() < (thr - (thr >> 40) - quantum - 1) as u128 {
                        bounds.push(Violation {
                            signature: format!("{filter}:step-below-threshold"),
                            message: format!("{filter} stepped by {} ns, threshold {} ns in call {i} of {:?}", d.nanos_lossy(), k.step_threshold_ns, seq),
                            replay: replay.clone(),
                        });
                    }
                }
                if *i == seq.len() {
                    bounds.push(Violation {
                        signature: format!("{filter}:step-on-demobilize"),
                        message: format!("{filter} stepped the clock while being demobilized after {:?}", seq),
                        replay: replay.clone(),
                    });
                }
            }
            ClockCmd::SetProps => {}
        }
    }
    if demob_freq > 1 {
        bounds.push(Violation {
            signature: format!("{filter}:demobilize-several-frequency-commands"),
            message: format!("{filter} issued {demob_freq} frequency commands while being demobilized after {:?}", seq),
            replay,
        });
    }
}

/// distinct command traces are counted exactly up to this many (a vacuity indicator, not a verdict)
const TRACE_CAP: usize = 4_000_000;

#[allow(dead_code)]
fn enumerate(alpha: &[FEv], depth: usize) -> Vec<Vec<FEv>> {
    let mut out: Vec<Vec<FEv>> = vec![vec![]];
    for _ in 0..depth {
        let mut next = Vec::with_capacity(out.len() * alpha.len());
        for s in &out {
            for e in alpha {
                let mut n = s.clone();
                n.push(*e);
                next.push(n);
            }
        }
        out = next;
    }
    out
}

pub struct Sweep {
    pub sequences: u64,
    pub commands: u64,
    pub panics: Vec<Violation>,
    pub bounds: Vec<Violation>,
    pub samples: Vec<serde_json::Value>,
    pub distinct_command_traces: usize,
}

fn dedup(v: Vec<Violation>) -> Vec<Violation> {
    let mut seen = std::collections::BTreeMap::new();
    for x in v {
        seen.entry(x.signature.clone()).or_insert(x);
    }
    seen.into_values().collect()
}

pub fn sweep(tier: Tier) -> Sweep {
    let full = alphabet(true);
    let pruned = alphabet(false);
    let configs = [
        KCfg { max_freq: 400.0, step_threshold_ns: 1_000_000 },
        KCfg { max_freq: 1.0, step_threshold_ns: 1_000 },
        KCfg { max_freq: 10.0, step_threshold_ns: 1_000_000_000 },
    ];
    let starts: [u64; 3] = [0, 1_000_000_000, (1 << 63) - 1];
    // (alphabet, depth, configs, starts)
    let mut plans: Vec<(&[FEv], usize, &[KCfg], &[u64])> = vec![];
    plans.push((&full, tier.pick(2, 3), &configs[..], &starts[..]));
    plans.push((&pruned, tier.pick(3, 4), &configs[..], &starts[..]));
    plans.push((&pruned, tier.pick(4, 5), &configs[..1], &starts[1..2]));
    let mut s = Sweep { sequences: 0, commands: 0, panics: vec![], bounds: vec![], samples: vec![], distinct_command_traces: 0 };
    let mut traces = std::collections::HashSet::new();
    for (alpha, depth, cfgs, sts) in plans {
        // all sequences of every length up to depth (demobilize closes each)
        for d in 1..=depth {
            // sequences are decoded from their index (digits to base |alphabet|): nothing is stored
            let n_alpha = alpha.len() as u64;
            let total = n_alpha.pow(d as u32);
            type Part = (u64, u64, Vec<Violation>, Vec<Violation>, std::collections::HashSet<u64>);
            let (n, c, p, b, h): Part = (0..total)
                .into_par_iter()
                .fold(
                    || (0u64, 0u64, Vec::<Violation>::new(), Vec::<Violation>::new(), std::collections::HashSet::<u64>::new()),
                    |mut acc: Part, idx| {
                        let mut seq = Vec::with_capacity(d);
                        let mut x = idx;
                        for _ in 0..d {
                            seq.push(alpha[(x % n_alpha) as usize]);
                            x /= n_alpha;
                        }
                        let seq = &seq;
                        for &st in sts {
                            for &kc in cfgs {
                                let r = run_filter::<KalmanFilter>(kalman_cfg(kc), st, seq, &[]);
                                acc.0 += 1;
                                acc.1 += r.cmds.len() as u64;
                                if acc.4.len() < TRACE_CAP / 16 {
                                    acc.4.insert(hash_cmds(&r));
                                }
                                judge("kalman", Some(kc), st, seq, &[], &r, &mut acc.2, &mut acc.3);
                            }
                            for gain in [0.25f64, 1.0] {
                                let r = run_filter::<BasicFilter>(gain, st, seq, &[]);
                                acc.0 += 1;
                                acc.1 += r.cmds.len() as u64;
                                if acc.4.len() < TRACE_CAP / 16 {
                                    acc.4.insert(hash_cmds(&r));
                                }
                                judge("basic", None, st, seq, &[], &r, &mut acc.2, &mut acc.3);
                            }
                        }
                        if acc.2.len() + acc.3.len() > 64 {
                            acc.2 = dedup(std::mem::take(&mut acc.2));
                            acc.3 = dedup(std::mem::take(&mut acc.3));
                        }
                        acc
                    },
                )
                .reduce(
                    || (0, 0, vec![], vec![], Default::default()),
                    |mut a: Part, b: Part| {
                        a.0 += b.0;
                        a.1 += b.1;
                        a.2.extend(b.2);
                        a.3.extend(b.3);
                        a.2 = dedup(std::mem::take(&mut a.2));
                        a.3 = dedup(std::mem::take(&mut a.3));
                        if a.4.len() < TRACE_CAP {
                            a.4.extend(b.4);
                        }
                        a
                    },
                );
            s.sequences += n;
            s.commands += c;
            s.panics.extend(p);
            s.bounds.extend(b);
            if traces.len() < TRACE_CAP {
                traces.extend(h);
            }
            s.panics = dedup(std::mem::take(&mut s.panics));
            s.bounds = dedup(std::mem::take(&mut s.bounds));
        }
    }
    // long periodic histories (zero-variance sample sets, saturated servo): every pattern of
    // period 1..3 over the pruned alphabet repeated to 80 calls, and (E2 style) every single
    // substitution into the period-1 (quick) / period-1-and-2 (thorough) histories
    {
        // long enough for the 32-slot measurement-noise window to wrap (twice for peer delays)
        const LEN: usize = 80;
        let mut hists: Vec<Vec<FEv>> = vec![];
        for period in 1..=tier.pick(2usize, 3usize) {
            for pat in enumerate(&pruned, period) {
                hists.push((0..LEN).map(|i| pat[i % period]).collect());
            }
        }
        // period-1 histories of 2000 calls: slow numerical drift of the covariance
        for e in &pruned {
            hists.push(vec![*e; 2000]);
        }
        // a Sync outage on a peer-to-peer slave: k seconds of one peer delay and one Sync per second
        // (offsets with +-1 us of low-discrepancy jitter, so that the wander adaptation is at
        // work), then 600 s of peer delays alone, then Sync again and a filter update - for every
        // k in 10..=120 (quick: every third)
        for k in (10usize..=120).step_by(tier.pick(3, 1)) {
            let mut h = vec![];
            for i in 0..k {
                let j = (((i as f64 + 1.0) * 0.618_033_988_749_894_9).fract() - 0.5) * 2000.0;
                h.push(FEv::M(Kind::Peer, 500, 500_000_000));
                h.push(FEv::M(Kind::Sync, j as i64, 500_000_000));
            }
            for _ in 0..600 {
                h.push(FEv::M(Kind::Peer, 500, 1_000_000_000));
            }
            for i in 0..5 {
                h.push(FEv::M(Kind::Sync, 300 * (i as i64 - 2), 1_000_000_000));
            }
            h.push(FEv::Update);
            hists.push(h);
        }
        let n_base = hists.len();
        for period in 1..=tier.pick(1usize, 2usize) {
            for pat in enumerate(&pruned, period) {
                let base: Vec<FEv> = (0..LEN).map(|i| pat[i % period]).collect();
                for pos in [0usize, 1, 5, 11, 12, 23, 33, 64, 79] {
                    for e in &pruned {
                        if *e != base[pos] {
                            let mut h = base.clone();
                            h[pos] = *e;
                            hists.push(h);
                        }
                    }
                }
            }
        }
        let res: Vec<(u64, u64, Vec<Violation>, Vec<Violation>, Vec<u64>)> = hists
            .par_iter()
            .map(|seq| {
                let mut p = vec![];
                let mut b = vec![];
                let mut hashes = vec![];
                let mut c = 0;
                let mut n = 0;
                for &kc in &configs[..2] {
                    let r = run_filter::<KalmanFilter>(kalman_cfg(kc), 1_000_000_000, seq, &[]);
                    n += 1;
                    c += r.cmds.len() as u64;
                    hashes.push(hash_cmds(&r));
                    judge("kalman", Some(kc), 1_000_000_000, seq, &[], &r, &mut p, &mut b);
                }
                let r = run_filter::<BasicFilter>(0.25, 1_000_000_000, seq, &[]);
                n += 1;
                c += r.cmds.len() as u64;
                hashes.push(hash_cmds(&r));
                judge("basic", None, 1_000_000_000, seq, &[], &r, &mut p, &mut b);
                (n, c, dedup(p), dedup(b), hashes)
            })
            .collect();
        for (n, c, p, b, h) in res {
            s.sequences += n;
            s.commands += c;
            s.panics.extend(p);
            s.bounds.extend(b);
            traces.extend(h);
        }
        s.panics = dedup(std::mem::take(&mut s.panics));
        s.bounds = dedup(std::mem::take(&mut s.bounds));
        s.samples.push(json!({"periodic_base_histories": n_base, "with_substitution": hists.len() - n_base, "length": LEN}));
    }
    // clock-failure deviations: every single and every pair of failing clock calls
    // (among the first 6) on all pruned sequences of length 3
    let seqs = enumerate(&pruned, 3);
    let mut fails: Vec<Vec<u64>> = (0..6u64).map(|i| vec![i]).collect();
    if tier == Tier::Thorough {
        for i in 0..6u64 {
            for j in i + 1..6 {
                fails.push(vec![i, j]);
            }
        }
    }
    let res: Vec<(u64, Vec<Violation>, Vec<Violation>)> = seqs
        .par_iter()
        .map(|seq| {
            let mut p = vec![];
            let mut b = vec![];
            let mut n = 0;
            for f in &fails {
                let kc = configs[0];
                let r = run_filter::<KalmanFilter>(kalman_cfg(kc), 1_000_000_000, seq, f);
                // a failure index beyond the calls made is the failure-free run: skip
                n += 1;
                judge("kalman", Some(kc), 1_000_000_000, seq, f, &r, &mut p, &mut b);
                let r = run_filter::<BasicFilter>(0.25, 1_000_000_000, seq, f);
                n += 1;
                judge("basic", None, 1_000_000_000, seq, f, &r, &mut p, &mut b);
            }
            (n, dedup(p), dedup(b))
        })
        .collect();
    for (n, p, b) in res {
        s.sequences += n;
        s.panics.extend(p);
        s.bounds.extend(b);
    }
    s.panics = dedup(std::mem::take(&mut s.panics));
    s.bounds = dedup(std::mem::take(&mut s.bounds));
    s.distinct_command_traces = traces.len();
    s.samples.push(json!({"filter": "kalman", "start_ns": 1_000_000_000u64, "seq": [FEv::M(Kind::Sync, 1_100_000, 1_000_000_000), FEv::M(Kind::Delay, -1_100_000, 0), FEv::Update]}));
    s
}

fn hash_cmds(r: &FRun) -> u64 {
    use std::hash::{Hash, Hasher};
    let mut h = std::collections::hash_map::DefaultHasher::new();
    for (i, c, ok) in &r.cmds {
        i.hash(&mut h);
        ok.hash(&mut h);
        match c {
            ClockCmd::SetFreq(x) => x.to_bits().hash(&mut h),
            ClockCmd::Step(d) => dur_to_bits(*d).hash(&mut h),
            ClockCmd::SetProps => 0u8.hash(&mut h),
        }
    }
    h.finish()
}

/// used by C03: only the panics of the sweep
pub fn panic_sweep(tier: Tier) -> (u64, Vec<Violation>) {
    let s = sweep(tier);
    (s.sequences, s.panics)
}

// ---------------------------------------------------------------------------
// port level: leaving the slave state
// ---------------------------------------------------------------------------

pub struct LeaveMon;
#[derive(Default)]
pub struct LeaveSt {
    /// per port: has left slave (and not become slave again)
    left: Vec<bool>,
}

impl Monitor for LeaveMon {
    type St = LeaveSt;
    fn post(&self, st: &mut LeaveSt, run: &mut Run<'_>, s: &Step, report: Option<&mut Vec<Violation>>) {
        if st.left.is_empty() {
            st.left = vec![false; run.n_ports()];
        }
        let mut out_local = vec![];
        let max = KalmanConfiguration::default().max_freq_offset;
        for p in 0..run.n_ports() {
            let tag = (p + 1) as u16;
            let cmds: Vec<&ClockCmd> = s.clock_cmds.iter().filter(|(t, _, _)| *t == tag).map(|(_, c, _)| c).collect();
            let leaving = matches!(s.before[p], PS::Slave) && !matches!(s.after[p], PS::Slave);
            for c in &cmds {
                match c {
                    ClockCmd::SetFreq(x) if !x.is_finite() || x.abs() > max * (1.0 + 1e-12) => out_local.push(Violation {
                        signature: "port:set_frequency-out-of-bounds".into(),
                        message: format!("port {} programmed {x} ppm in {:?}", p + 1, s.ev),
                        replay: json!(null),
                    }),
                    _ => {}
                }
            }
            if leaving {
                let nfreq = cmds.iter().filter(|c| matches!(c, ClockCmd::SetFreq(_))).count();
                let nstep = cmds.iter().filter(|c| matches!(c, ClockCmd::Step(_))).count();
                // commands of the very call that also processed a measurement before leaving are
                // not distinguishable here; in all explored alphabets a leaving call carries no measurement
                if nfreq > 1 || nstep > 0 {
                    out_local.push(Violation {
                        signature: "port:leaving-slave-several-commands".into(),
                        message: format!("port {} left slave in {:?} with {nfreq} frequency and {nstep} step commands", p + 1, s.ev),
                        replay: json!(null),
                    });
                }
                st.left[p] = true;
            } else if matches!(s.after[p], PS::Slave) {
                st.left[p] = false;
            } else if st.left[p] && cmds.iter().any(|c| !matches!(c, ClockCmd::SetProps)) {
                out_local.push(Violation {
                    signature: format!("port:clock-command-after-leaving-slave:{}", state_name(s.before[p])),
                    message: format!("port {} ({}) issued {:?} in {:?} after it had left the slave state", p + 1, state_name(s.before[p]), cmds, s.ev),
                    replay: json!(null),
                });
            }
        }
        if let Some(out) = report {
            out.extend(out_local);
        }
    }
}

fn leave_defs() -> Vec<WorldDef> {
    // slave with a few measurements absorbed, then every way of leaving and every continuation
    let mut seed = vec![Ev::Ann(0, 0), Ev::Ann(0, 0), Ev::Bmca];
    for _ in 0..3 {
        seed.extend([Ev::Sync(0, 0, false), Ev::T(0, Timer::Delay), Ev::TxTs(0), Ev::DelayResp(0, 0, true, true)]);
    }
    vec![
        WorldDef { name: "leave-1p-e2e", ports: vec![(false, false)], slave_only: false, seed: seed.clone(), obedient: false, rich: true, depth: (4, 6) },
        WorldDef { name: "leave-1p-p2p", ports: vec![(true, false)], slave_only: false, seed: vec![Ev::Ann(0, 0), Ev::Ann(0, 0), Ev::Bmca, Ev::Sync(0, 0, false), Ev::T(0, Timer::Delay), Ev::TxTs(0), Ev::PdelayResp(0, 0, false, true), Ev::Sync(0, 0, false)], obedient: false, rich: false, depth: (4, 5) },
        WorldDef { name: "leave-2p", ports: vec![(false, false), (false, false)], slave_only: false, seed, obedient: false, rich: false, depth: (3, 4) },
    ]
}

pub fn run(tier: Tier) -> i32 {
    let mut rep = Reporter::new("C13", tier, "model_checking");
    let s = sweep(tier);
    rep.violations(s.bounds);
    // port level
    let built = build("C13", &LeaveMon, leave_defs(), true);
    let depths: std::collections::HashMap<String, (usize, usize)> = built.iter().map(|(s, d)| (s.name.clone(), *d)).collect();
    let systems: Vec<_> = built.into_iter().map(|(s, _)| s).collect();
    explore_all(&mut rep, &systems, |s| tier.pick(depths[&s.name].0, depths[&s.name].1), tier.pick(10.0, 300.0));
    rep.cover("filter_sequences", json!(s.sequences));
    rep.cover("filter_clock_commands_judged", json!(s.commands));
    rep.cover("filter_distinct_command_traces", json!(s.distinct_command_traces));
    rep.cover("filter_alphabet", json!({"full": alphabet(true).len(), "pruned": alphabet(false).len()}));
    let mut samples = rep.coverage.get("samples").cloned().unwrap_or(json!([]));
    samples.as_array_mut().unwrap().extend(s.samples);
    rep.cover("samples", samples);
    rep.assume("filter harness clock is coherent: now() never lags the event times shown to the filter and follows every successful step");
    rep.assume("panics of the same sweep are C03's and reported there");
    rep.finish()
}

pub fn replay(r: &serde_json::Value) {
    if r["kind"] == "filter" {
        let seq: Vec<FEv> = serde_json::from_value(r["seq"].clone()).unwrap();
        let fail: Vec<u64> = serde_json::from_value(r["fail"].clone()).unwrap_or_default();
        let start = r["start_ns"].as_u64().unwrap();
        let kc: Option<KCfg> = serde_json::from_value(r["kalman"].clone()).unwrap_or(None);
        let run = if r["filter"] == "kalman" {
            run_filter::<KalmanFilter>(kalman_cfg(kc.unwrap()), start, &seq, &fail)
        } else {
            run_filter::<BasicFilter>(0.25, start, &seq, &fail)
        };
        println!("sequence {:?}\ncommands {:?}\npanic {:?}", seq, run.cmds, run.panic.as_ref().map(|(i, p)| (i, &p.message)));
        let (mut p, mut b) = (vec![], vec![]);
        judge(r["filter"].as_str().unwrap(), kc, start, &seq, &fail, &run, &mut p, &mut b);
        for v in p.into_iter().chain(b) {
            println!("VIOLATION {} :: {}", v.signature, v.message);
        }
    } else {
        let systems: Vec<_> = build("C13", &LeaveMon, leave_defs(), true).into_iter().map(|(s, _)| s).collect();
        replay_world(&systems, r);
    }
}
