//! Driving the real `statime-metrics-exporter` binary: a harness-served
//! observation socket, the exporter process, and a raw TCP client.

use std::io::{Read, Write};
use std::net::{TcpListener, TcpStream};
use std::os::unix::net::UnixListener;
use std::path::PathBuf;
use std::process::{Child, Command, Stdio};
use std::sync::{Arc, Mutex};
use std::time::{Duration, Instant};

pub const EXPORTER: &str = "/verif/target/repo/release/statime-metrics-exporter";

/// what the observation socket does with the next connection
#[derive(Clone, Debug, PartialEq)]
pub enum Obs {
    /// write these bytes, then close
    Bytes(Vec<u8>),
    /// accept and close at once
    CloseEarly,
    /// the listener is absent (no socket file: connecting fails with "not found")
    Absent,
    /// a socket file is there but nobody listens on it (a daemon that died): connecting is refused
    Stale,
}

pub struct ObsServer {
    pub path: PathBuf,
    pub behaviour: Arc<Mutex<Obs>>,
    pub served: Arc<Mutex<u64>>,
    stop: Arc<Mutex<bool>>,
    handle: Option<std::thread::JoinHandle<()>>,
    stale_ack: Arc<Mutex<u64>>,
    listening: Arc<Mutex<bool>>,
}

impl ObsServer {
    pub fn start(path: PathBuf) -> ObsServer {
        let _ = std::fs::remove_file(&path);
        let behaviour = Arc::new(Mutex::new(Obs::CloseEarly));
        let served = Arc::new(Mutex::new(0u64));
        let stop = Arc::new(Mutex::new(false));
        let (b2, s2, st2, p2) = (behaviour.clone(), served.clone(), stop.clone(), path.clone());
        let stale_ack = Arc::new(Mutex::new(0u64));
        let st_ack = stale_ack.clone();
        let listening = Arc::new(Mutex::new(false));
        let lis2 = listening.clone();
        let handle = std::thread::spawn(move || {
            let mut listener: Option<UnixListener> = None;
            loop {
                if *st2.lock().unwrap() {
                    break;
                }
                let want_absent = *b2.lock().unwrap() == Obs::Absent;
                if want_absent {
                    if listener.is_some() || p2.exists() {
                        // (the file may be a stale one left without a listener)
                        listener = None;
                        let _ = std::fs::remove_file(&p2);
                    }
                    *lis2.lock().unwrap() = false;
                    std::thread::sleep(Duration::from_millis(2));
                    continue;
                }
                let want_stale = *b2.lock().unwrap() == Obs::Stale;
                if want_stale {
                    if listener.is_some() || !p2.exists() {
                        // dropping a UnixListener leaves its socket file behind
                        listener = None;
                        if !p2.exists() {
                            drop(UnixListener::bind(&p2).expect("harness: bind observation socket"));
                        }
                        *st_ack.lock().unwrap() += 1;
                    }
                    *lis2.lock().unwrap() = false;
                    std::thread::sleep(Duration::from_millis(2));
                    continue;
                }
                if listener.is_none() {
                    let _ = std::fs::remove_file(&p2);
                    let l = UnixListener::bind(&p2).expect("harness: bind observation socket");
                    l.set_nonblocking(true).unwrap();
                    listener = Some(l);
                    *lis2.lock().unwrap() = true;
                }
                match listener.as_ref().unwrap().accept() {
                    Ok((mut s, _)) => {
                        let b = b2.lock().unwrap().clone();
                        if let Obs::Bytes(bytes) = b {
                            let _ = s.set_nonblocking(false);
                            let _ = s.write_all(&bytes);
                        }
                        drop(s);
                        *s2.lock().unwrap() += 1;
                    }
                    Err(_) => std::thread::sleep(Duration::from_millis(1)),
                }
            }
        });
        ObsServer { path, behaviour, served, stop, handle: Some(handle), stale_ack, listening }
    }
    pub fn set(&self, o: Obs) {
        *self.behaviour.lock().unwrap() = o.clone();
        // give the server thread time to (un)bind
        if o == Obs::Absent {
            let t = Instant::now();
            while self.path.exists() {
                if t.elapsed() > Duration::from_secs(5) {
                    eprintln!("machinery error: the observation socket harness did not remove its socket file");
                    std::process::exit(2);
                }
                std::thread::sleep(Duration::from_millis(1));
            }
        } else if o == Obs::Stale {
            // wait until the server thread has dropped its listener
            let before = *self.stale_ack.lock().unwrap();
            let t = Instant::now();
            while *self.stale_ack.lock().unwrap() == before && t.elapsed() < Duration::from_millis(200) {
                std::thread::sleep(Duration::from_millis(1));
            }
        } else {
            // wait until the server thread listens (a stale socket file may still be lying there)
            let t = Instant::now();
            while !*self.listening.lock().unwrap() && t.elapsed() < Duration::from_secs(2) {
                std::thread::sleep(Duration::from_millis(1));
            }
        }
    }
}
impl Drop for ObsServer {
    fn drop(&mut self) {
        *self.stop.lock().unwrap() = true;
        if let Some(h) = self.handle.take() {
            let _ = h.join();
        }
        let _ = std::fs::remove_file(&self.path);
    }
}

pub struct Exporter {
    pub child: Child,
    pub addr: String,
    pub dir: PathBuf,
}

pub fn free_port() -> u16 {
    TcpListener::bind("127.0.0.1:0").unwrap().local_addr().unwrap().port()
}

impl Exporter {
    pub fn start(dir: &PathBuf, obs_path: &PathBuf) -> Exporter {
        std::fs::create_dir_all(dir).unwrap();
        let port = free_port();
        let addr = format!("127.0.0.1:{port}");
        let cfg = dir.join(format!("exporter-{port}.toml"));
        std::fs::write(
            &cfg,
            format!("[[port]]\ninterface = \"lo\"\n\n[observability]\nobservation-path = \"{}\"\nmetrics-exporter-listen = \"{}\"\n", obs_path.display(), addr),
        )
        .unwrap();
        let mut cmd = if std::env::var("VERIF_STRACE").is_ok() {
            let mut c = Command::new("strace");
            c.args(["-f", "-o", "/tmp/c19dbg/strace_rust.txt", "-e", "trace=network,read,write,close", EXPORTER]);
            c
        } else {
            Command::new(EXPORTER)
        };
        let child = cmd.arg("-c").arg(&cfg).stdout(Stdio::null()).stderr(Stdio::null()).spawn().unwrap_or_else(|e| {
            eprintln!("machinery error: cannot start {EXPORTER}: {e}");
            std::process::exit(2)
        });
        let ex = Exporter { child, addr, dir: dir.clone() };
        // wait until it answers a complete request (a bare connect-and-close probe would itself
        // be one of the client behaviours C20 is about)
        let t = Instant::now();
        loop {
            match get(&ex.addr, Duration::from_secs(5)) {
                Ok(_) => break,
                Err(e) => {
                    if std::env::var("VERIF_DEBUG").is_ok() {
                        eprintln!("exporter start probe: {e}");
                    }
                }
            }
            if t.elapsed() > Duration::from_secs(20) {
                eprintln!("machinery error: exporter did not start answering on {}", ex.addr);
                std::process::exit(2);
            }
            std::thread::sleep(Duration::from_millis(10));
        }
        ex
    }
    pub fn alive(&mut self) -> bool {
        matches!(self.child.try_wait(), Ok(None))
    }
    /// user+system CPU time of the process in clock ticks
    pub fn cpu_ticks(&self) -> u64 {
        let s = std::fs::read_to_string(format!("/proc/{}/stat", self.child.id())).unwrap_or_default();
        let after = s.rsplit(')').next().unwrap_or("");
        let f: Vec<&str> = after.split_whitespace().collect();
        // fields after the command: state(0) ppid(1) ... utime is index 11, stime 12
        f.get(11).and_then(|x| x.parse::<u64>().ok()).unwrap_or(0) + f.get(12).and_then(|x| x.parse::<u64>().ok()).unwrap_or(0)
    }
}
impl Drop for Exporter {
    fn drop(&mut self) {
        let _ = self.child.kill();
        let _ = self.child.wait();
    }
}

#[derive(Debug, Clone)]
pub struct Response {
    pub status: u16,
    pub headers: Vec<(String, String)>,
    pub body: Vec<u8>,
    pub raw_len: usize,
}

/// send a well-formed GET and read the whole response (until EOF or the deadline)
pub fn get(addr: &str, deadline: Duration) -> Result<Response, String> {
    let mut s = TcpStream::connect(addr).map_err(|e| format!("connect: {e}"))?;
    s.set_read_timeout(Some(deadline)).unwrap();
    s.write_all(b"GET /metrics HTTP/1.1\r\nHost: localhost\r\nAccept: */*\r\n\r\n").map_err(|e| format!("write: {e}"))?;
    read_response(&mut s, deadline)
}

pub fn read_response(s: &mut TcpStream, deadline: Duration) -> Result<Response, String> {
    let start = Instant::now();
    let mut buf = vec![];
    let mut tmp = [0u8; 4096];
    loop {
        if start.elapsed() > deadline {
            return Err(format!("no complete response within {:?} ({} bytes so far)", deadline, buf.len()));
        }
        match s.read(&mut tmp) {
            Ok(0) => break,
            Ok(n) => {
                buf.extend_from_slice(&tmp[..n]);
                // complete as soon as content-length bytes have arrived
                if let Some(r) = parse(&buf) {
                    if let Some(cl) = r.headers.iter().find(|h| h.0 == "content-length").and_then(|h| h.1.parse::<usize>().ok()) {
                        if r.body.len() >= cl {
                            return Ok(r);
                        }
                    }
                }
            }
            Err(e) if e.kind() == std::io::ErrorKind::WouldBlock || e.kind() == std::io::ErrorKind::TimedOut => {
                return Err(format!("no complete response within {:?} ({} bytes so far)", deadline, buf.len()));
            }
            Err(e) => return Err(format!("read: {e}")),
        }
    }
    parse(&buf).ok_or_else(|| format!("connection closed after {} bytes without a complete response head", buf.len()))
}

fn parse(buf: &[u8]) -> Option<Response> {
    let pos = buf.windows(4).position(|w| w == b"\r\n\r\n")?;
    let head = std::str::from_utf8(&buf[..pos]).ok()?;
    let mut lines = head.split("\r\n");
    let status_line = lines.next()?;
    let mut sp = status_line.split(' ');
    let version = sp.next()?;
    if !version.starts_with("HTTP/1.") {
        return None;
    }
    let status: u16 = sp.next()?.parse().ok()?;
    let mut headers = vec![];
    for l in lines {
        let (k, v) = l.split_once(':')?;
        headers.push((k.trim().to_ascii_lowercase(), v.trim().to_string()));
    }
    Some(Response { status, headers, body: buf[pos + 4..].to_vec(), raw_len: buf.len() })
}

pub fn scratch_dir(tag: &str) -> PathBuf {
    let d = PathBuf::from(format!("/verif/target/scratch/{tag}-{}", std::process::id()));
    let _ = std::fs::remove_dir_all(&d);
    std::fs::create_dir_all(&d).unwrap();
    d
}
