//! C09 — offset and delay measurements use one matching exchange, exactly.
//! E1 over `World` with the measurement log in the state key.  The reference is
//! computed by the monitor from the frames and timestamps actually delivered:
//! every `Measurement` the filter receives must be the IEEE 1588 formula applied
//! to the parts of ONE exchange (equal sequence ids, from the parent) that have
//! all arrived.  All timestamps and corrections are tagged (pairwise sums and
//! differences distinct), so a value built from two exchanges matches nothing.
//! Plus an E3 arithmetic lattice for single exchanges.

use rayon::prelude::*;
use serde_json::json;
use simcore::harness::*;
use simcore::refcodec::{self as rc, Body, Pid, Ts};
use simcore::report::{Reporter, Tier, Violation};
use simcore::scen::Peer;
use simcore::world::*;

#[derive(Default)]
pub struct ExSt {
    /// (seq, two_step, corrected receive time bits, origin ns bits for one-step)
    syncs: Vec<(u16, bool, i128, i128)>,
    /// (seq, send time bits = precise origin + correction)
    fups: Vec<(u16, i128)>,
    /// delay requests sent: seq -> reported transmit timestamp bits
    reqs: Vec<(u16, Option<i128>)>,
    /// delay responses from the parent addressed to us: (seq, receive ts - correction, bits)
    resps: Vec<(u16, i128)>,
    last_raw_sync: Option<i128>,
    mean_delay: Option<i128>,
    parent: Option<Pid>,
    n_meas: usize,
}

pub struct ExchangeMon {
    pub asym_bits: i128,
}

fn ts_bits(t: Ts) -> i128 {
    (t.to_ns() as i128) << 32
}
fn corr_bits(c: i64) -> i128 {
    (c as i128) << 16
}

impl ExchangeMon {
    fn note_frame(&self, st: &mut ExSt, run: &Run<'_>, bytes: &[u8], rx_bits: Option<u128>, port: usize) {
        let Ok(m) = rc::decode(bytes) else { return };
        if m.hdr.version != 2 || m.hdr.domain != 0 || m.hdr.sdo() != 0 {
            return;
        }
        let Some(parent) = &st.parent else { return };
        if m.hdr.source != *parent {
            return;
        }
        let own = run.own_pid(port);
        match m.body {
            Body::Sync { origin } => {
                if let Some(rx) = rx_bits {
                    let two = m.hdr.flag(rc::F_TWO_STEP);
                    st.syncs.push((m.hdr.seq, two, rx as i128 - corr_bits(m.hdr.correction), ts_bits(origin)));
                }
            }
            Body::FollowUp { precise_origin } => st.fups.push((m.hdr.seq, ts_bits(precise_origin) + corr_bits(m.hdr.correction))),
            Body::DelayResp { receive, requester } => {
                if requester == own {
                    st.resps.push((m.hdr.seq, ts_bits(receive) - corr_bits(m.hdr.correction)));
                }
            }
            _ => {}
        }
    }
}

impl Monitor for ExchangeMon {
    type St = ExSt;

    fn pre(&self, st: &mut ExSt, run: &mut Run<'_>, ev: &Ev, _judged: bool) {
        // the selected parent (the port stays slave to it in these worlds)
        if matches!(run.node.port_ref(0).port_ds().port_state, PS::Slave) {
            let p = run.node.inst.parent_ds().parent_port_identity;
            let now = Some(Pid { clock: p.clock_identity.0, port: p.port_number });
            if st.parent.is_some() && st.parent != now {
                // another parent has been selected: what arrived from the old one belongs to no
                // exchange with the new one
                st.syncs.clear();
                st.fups.clear();
                st.resps.clear();
                st.last_raw_sync = None;
            }
            st.parent = now;
        } else if st.parent.is_some() {
            // the port has left the slave state: a later slave state starts from nothing (the
            // library keeps no half exchange and no raw sync offset across it either)
            st.parent = None;
            st.syncs.clear();
            st.fups.clear();
            st.resps.clear();
            st.last_raw_sync = None;
        }
        match ev {
            Ev::RawAt(p, h, bits) => self.note_frame(st, run, &unhex(h), Some(bits.parse().unwrap()), *p),
            Ev::Raw(p, h, on_event) => {
                let rx = if *on_event { Some((run.cfg.rx_ns as u128) << 32) } else { None };
                self.note_frame(st, run, &unhex(h), rx, *p)
            }
            Ev::TxTsAt(p, bits) => {
                // which request does the oldest pending context belong to?
                if let Some((_, data)) = run.hosts[*p].pending.front() {
                    if let Ok(m) = rc::decode(data) {
                        if matches!(m.body, Body::DelayReq { .. }) {
                            let v: u128 = bits.parse().unwrap();
                            if let Some(e) = st.reqs.iter_mut().rev().find(|(s, _)| *s == m.hdr.seq) {
                                // a context is returned at most once
                                e.1 = Some(v as i128);
                            }
                        }
                    }
                }
            }
            _ => {}
        }
    }

    fn post(&self, st: &mut ExSt, _run: &mut Run<'_>, s: &Step, report: Option<&mut Vec<Violation>>) {
        let mut local = vec![];
        // requests sent in this step
        for (_, acts) in &s.acts {
            for a in acts {
                if let Some(Ok(m)) = &a.decoded {
                    if matches!(m.body, Body::DelayReq { .. }) && a.kind == "SendEvent" {
                        // "matching sequence numbers" presupposes that consecutive requests differ
                        if let Some((prev, _)) = st.reqs.last() {
                            if m.hdr.seq != prev.wrapping_add(1) {
                                local.push(Violation {
                                    signature: "delay-request-ids-not-consecutive".into(),
                                    message: format!("Delay_Req with sequence id {} follows one with id {}: a late response to the earlier request would be taken for the later one", m.hdr.seq, prev),
                                    replay: json!(null),
                                });
                            }
                        }
                        st.reqs.push((m.hdr.seq, None));
                        if st.reqs.len() > 8 {
                            st.reqs.remove(0);
                        }
                    }
                }
            }
        }
        for (_, c) in &s.filter_calls {
            let FilterCall::Measurement(m) = c else { continue };
            st.n_meas += 1;
            let ev_bits = time_to_bits(m.event_time) as i128;
            if let Some(raw) = m.raw_sync_offset {
                let raw = dur_to_bits(raw);
                // legitimate values: one-step Sync alone, or two-step Sync + Follow_Up with the same id
                let mut ok = false;
                for (seq, two, recv, origin) in &st.syncs {
                    if !*two {
                        if raw == recv - origin - self.asym_bits && ev_bits == *recv {
                            ok = true;
                        }
                    } else {
                        for (fseq, send) in &st.fups {
                            if fseq == seq && raw == recv - send - self.asym_bits && ev_bits == *recv {
                                ok = true;
                            }
                        }
                    }
                }
                if !ok {
                    local.push(Violation {
                        signature: "sync-measurement-not-from-one-exchange".into(),
                        message: format!(
                            "raw sync offset {} (2^-32 ns) at event time {} matches no single Sync(/Follow_Up) exchange that has arrived: syncs {:?} follow-ups {:?}",
                            raw, ev_bits, st.syncs, st.fups
                        ),
                        replay: json!(null),
                    });
                }
                let want_off = st.mean_delay.map(|d| raw - d);
                let got_off = m.offset.map(dur_to_bits);
                if want_off != got_off {
                    local.push(Violation {
                        signature: "offset-not-raw-minus-mean-delay".into(),
                        message: format!("offset {:?}, expected raw sync {} minus last mean delay {:?}", got_off, raw, st.mean_delay),
                        replay: json!(null),
                    });
                }
                st.last_raw_sync = Some(raw);
                if m.raw_delay_offset.is_some() || m.delay.is_some() || m.peer_delay.is_some() {
                    local.push(Violation { signature: "mixed-measurement".into(), message: format!("{:?}", m), replay: json!(null) });
                }
            } else if let Some(raw) = m.raw_delay_offset {
                let raw = dur_to_bits(raw);
                let mut ok = false;
                for (seq, tx) in &st.reqs {
                    if let Some(tx) = tx {
                        for (rseq, recv) in &st.resps {
                            if rseq == seq && raw == tx - recv - self.asym_bits && ev_bits == *tx {
                                ok = true;
                            }
                        }
                    }
                }
                if !ok {
                    local.push(Violation {
                        signature: "delay-measurement-not-from-one-exchange".into(),
                        message: format!(
                            "raw delay offset {} at event time {} matches no single Delay_Req/Delay_Resp exchange: requests {:?} responses {:?}",
                            raw, ev_bits, st.reqs, st.resps
                        ),
                        replay: json!(null),
                    });
                }
                let got = m.delay.map(dur_to_bits);
                match (st.last_raw_sync, got) {
                    (Some(rs), Some(g)) => {
                        let want = (rs - raw) / 2;
                        if (g - want).abs() > 1 {
                            local.push(Violation {
                                signature: "delay-not-half-of-sync-minus-delay".into(),
                                message: format!("delay {} expected ({} - {})/2 = {}", g, rs, raw, want),
                                replay: json!(null),
                            });
                        }
                        st.mean_delay = Some(g); // the recording filter returns it as the mean delay
                    }
                    (None, None) => {}
                    (a, b) => local.push(Violation {
                        signature: "delay-presence".into(),
                        message: format!("last raw sync {:?} but delay {:?}", a, b),
                        replay: json!(null),
                    }),
                }
            } else if m.peer_delay.is_none() {
                local.push(Violation { signature: "empty-measurement".into(), message: format!("{:?}", m), replay: json!(null) });
            }
        }
        if let Some(out) = report {
            out.extend(local);
        }
    }
}

// tagged values: all pairwise sums/differences distinct (checked at start-up)
fn tag_ns(i: usize) -> u64 {
    // sparse ruler-like offsets on top of a base, with odd sub-second parts
    const T: [u64; 20] = [3, 17, 61, 157, 419, 1031, 2687, 6571, 15803, 37799, 90001, 214003, 508009, 1205041, 2856097, 6765209, 16061507, 38130001, 90523007, 214907011];
    1_000_000_000 * (40 + 3 * i as u64) + T[i] * 1_013
}
fn tag_corr(i: usize) -> i64 {
    const C: [i64; 8] = [5 << 16 | 0x0123, -(9 << 16 | 0x0771), 21 << 16 | 0x3001, -(47 << 16 | 0x10f1), 0x4567, -0x2101, 101 << 16, 0];
    C[i % 8]
}

pub fn check_tags() {
    let mut vals: Vec<i128> = (0..20).map(|i| (tag_ns(i) as i128) << 32).collect();
    for i in 0..8 {
        vals.push(corr_bits(tag_corr(i)));
    }
    // differences of timestamp pairs combined with any two corrections must be unique enough:
    // verify all pairwise differences of timestamps are distinct and no correction equals one
    let mut diffs = std::collections::HashSet::new();
    for i in 0..20 {
        for j in 0..20 {
            if i != j && !diffs.insert(vals[i] - vals[j]) {
                panic!("harness: timestamp tags are not a Golomb-like set");
            }
        }
    }
}

pub struct Built {
    pub sys: WorldSys<'static, ExchangeMon>,
    pub depth: (usize, usize),
}

static MON0: ExchangeMon = ExchangeMon { asym_bits: 0 };
static MON_ASYM: ExchangeMon = ExchangeMon { asym_bits: (1_000i128 << 32) + (1 << 31) }; // +1000.5 ns
static MON_NEG: ExchangeMon = ExchangeMon { asym_bits: -((250i128 << 32) + (1 << 30)) }; // -250.25 ns

pub fn systems(tier: Tier) -> Vec<Built> {
    let mut out = vec![];
    for (name, mon, seq0, n_sync) in [
        ("e2e-asym0", &MON0, 100u16, 2usize),
        ("e2e-asym+1000.5", &MON_ASYM, 65534, 2),
        ("e2e-asym-250.25", &MON_NEG, 7, 2),
        ("e2e-three-syncs", &MON0, 65535, 3),
        ("e2e-reparent", &MON0, 300, 1),
    ] {
        if n_sync == 3 && tier == Tier::Quick {
            continue;
        }
        let mut node = NodeSpec::default();
        node.ports[0].asymmetry_ns_frac = mon.asym_bits;
        let mut cfg = WorldCfg { node, log_in_key: true, ..Default::default() };
        let a = Peer::gm(1, 1);
        let b = Peer::gm(2, 250);
        cfg.peers = vec![a.clone(), b.clone()];
        let own = Pid { clock: cfg.node.identity, port: 1 };
        let mut alpha = Alpha::new();
        let mut t = 0usize; // tag counter
        for i in 0..n_sync {
            let seq = seq0.wrapping_add(i as u16);
            // two-step Sync, its Follow_Up
            let rx = (tag_ns(t) as u128) << 32 | (0x1234_5678u128 * (i as u128 + 1)) & 0xffff_ffff;
            alpha = alpha.add(Ev::RawAt(0, hex(&a.sync(seq, true, Ts::default(), tag_corr(t))), rx.to_string()));
            t += 1;
            alpha = alpha.add(Ev::Raw(0, hex(&a.follow_up(seq, Ts::from_ns(tag_ns(t) as u128), tag_corr(t))), false));
            t += 1;
        }
        // a one-step Sync with its own id, and a Follow_Up with an id that belongs to nothing
        let rx = (tag_ns(t) as u128) << 32 | 0x8000_0001;
        alpha = alpha.add(Ev::RawAt(0, hex(&a.sync(seq0.wrapping_add(40), false, Ts::from_ns(tag_ns(t + 1) as u128), tag_corr(t))), rx.to_string()));
        t += 2;
        // delay side
        alpha = alpha.add(Ev::T(0, Timer::Delay));
        alpha = alpha.add(Ev::TxTsAt(0, (((tag_ns(t) as u128) << 32) | 0x4000_0000).to_string()));
        t += 1;
        alpha = alpha.add(Ev::TxTsAt(0, (((tag_ns(t) as u128) << 32) | 0x0000_ffff).to_string()));
        t += 1;
        for seq in [0u16, 1, 9] {
            alpha = alpha.add(Ev::Raw(0, hex(&a.delay_resp(seq, Ts::from_ns(tag_ns(t) as u128), tag_corr(t), &own)), false));
            t += 1;
        }
        // a response from a non-parent with a matching id
        alpha = alpha.add(Ev::Raw(0, hex(&b.delay_resp(0, Ts::from_ns(tag_ns(t) as u128), 0, &own)), false));
        t += 1;
        // a Follow_Up and a two-step Sync from a non-parent bearing the first exchange's id
        alpha = alpha.add(Ev::Raw(0, hex(&b.follow_up(seq0, Ts::from_ns(tag_ns(t) as u128), tag_corr(t))), false));
        t += 1;
        let rx = (tag_ns(t) as u128) << 32 | 0x0bad_0001;
        alpha = alpha.add(Ev::RawAt(0, hex(&b.sync(seq0, true, Ts::default(), tag_corr(t))), rx.to_string()));
        // the BMCA keeps running (the parent keeps announcing), and in the re-parenting world the
        // port starts as slave of B (priority1 100) until the better A is selected
        alpha = alpha.add(Ev::Bmca).add(Ev::Ann(0, 0));
        let reparent = name.contains("reparent");
        if reparent {
            cfg.peers[1].priority1 = 100;
        }
        let sys = WorldSys {
            property: "C09",
            name: name.to_string(),
            cfg,
            seed: if reparent { vec![Ev::Ann(0, 1), Ev::Ann(0, 1), Ev::Bmca] } else { vec![Ev::Ann(0, 0), Ev::Ann(0, 0), Ev::Bmca] },
            alphabet: alpha.0,
            obedient: true,
            monitor: mon,
            macros: vec![],
        };
        out.push(Built { sys, depth: if n_sync == 3 { (8, 10) } else if reparent { (7, 9) } else { (9, 12) } });
    }
    // traffic of other PTP domains bearing the parent's identity and the ids of the running
    // exchanges (a grandmaster serving several profiles from one port): same domainNumber with
    // another majorSdoId (gPTP's 0x100), with another minorSdoId, and another domainNumber
    {
        let name = "e2e-other-domains";
        let node = NodeSpec::default();
        let mut cfg = WorldCfg { node, log_in_key: true, ..Default::default() };
        let a = Peer::gm(1, 1);
        cfg.peers = vec![a.clone()];
        let own = Pid { clock: cfg.node.identity, port: 1 };
        let seq0 = 65535u16;
        let mut alpha = Alpha::new();
        let rx = (tag_ns(0) as u128) << 32 | 0x1234_5678;
        alpha = alpha.add(Ev::RawAt(0, hex(&a.sync(seq0, true, Ts::default(), tag_corr(0))), rx.to_string()));
        alpha = alpha.add(Ev::Raw(0, hex(&a.follow_up(seq0, Ts::from_ns(tag_ns(1) as u128), tag_corr(1))), false));
        alpha = alpha.add(Ev::T(0, Timer::Delay));
        alpha = alpha.add(Ev::TxTsAt(0, (((tag_ns(2) as u128) << 32) | 0x4000_0000).to_string()));
        alpha = alpha.add(Ev::Raw(0, hex(&a.delay_resp(0, Ts::from_ns(tag_ns(3) as u128), tag_corr(3), &own)), false));
        let mut t = 4usize;
        for (dom, sdo) in [(0u8, 0x100u16), (0, 0x001), (1, 0)] {
            let mut f = a.clone();
            f.domain = dom;
            f.sdo = sdo;
            alpha = alpha.add(Ev::Raw(0, hex(&f.follow_up(seq0, Ts::from_ns(tag_ns(t) as u128), tag_corr(t))), false));
            t += 1;
            alpha = alpha.add(Ev::Raw(0, hex(&f.delay_resp(0, Ts::from_ns(tag_ns(t) as u128), tag_corr(t), &own)), false));
            t += 1;
            let rx = (tag_ns(t) as u128) << 32 | 0x0bad_0001;
            // one-step in the first foreign domain, two-step (pairs with the parent's Follow_Up) in the others
            alpha = alpha.add(Ev::RawAt(0, hex(&f.sync(seq0, sdo != 0x100, Ts::from_ns(tag_ns(t + 1) as u128), tag_corr(t))), rx.to_string()));
            t += 2;
        }
        // the parent's answers to other slaves' requests with the same sequence id: another clock
        // with the same port number, and another port of a clock that shares seven identity octets
        for (i, req) in [Pid { clock: [0xee; 8], port: 1 }, Pid { clock: { let mut c = own.clock; c[7] ^= 1; c }, port: 1 }].iter().enumerate() {
            alpha = alpha.add(Ev::Raw(0, hex(&a.delay_resp(0, Ts::from_ns(tag_ns(16 + i) as u128), tag_corr(16 + i), req)), false));
        }
        let sys = WorldSys {
            property: "C09",
            name: name.to_string(),
            cfg,
            seed: vec![Ev::Ann(0, 0), Ev::Ann(0, 0), Ev::Bmca],
            alphabet: alpha.0,
            obedient: true,
            monitor: &MON0,
            macros: vec![],
        };
        out.push(Built { sys, depth: (6, 8) });
    }
    out
}

// ---------------------------------------------------------------------------
// arithmetic lattice for single exchanges
// ---------------------------------------------------------------------------

fn lattice(tier: Tier) -> (u64, u64, Vec<Violation>) {
    let secs = [0u64, 1, (1 << 32) - 1, 1 << 32, (1 << 48) - 2];
    let nanos = [0u32, 1, 999_999_999];
    let fracs = [0u128, 1, 1 << 31, (1 << 32) - 1];
    let corrs: Vec<i64> = vec![0, 1, -1, 0x8000, -0x8000, 1 << 16, -(1 << 16), (1 << 30) + 0x1234, -((1 << 30) + 0x4321)];
    let asyms: Vec<i128> = vec![0, -(1000i128 << 32), (1i128 << 32) + (1 << 31)];
    let mut cases: Vec<(Ts, u128, i64, i64, i128, bool)> = vec![];
    for &s in &secs {
        for &n in &nanos {
            let t1 = Ts { secs: s, nanos: n };
            for &dn in &[0u64, 1, 1_000_000_000 - 1, 1_000_000_000, 5_000_000_000] {
                for &f in &fracs {
                    let t2 = ((t1.to_ns() + dn as u128) << 32) | f;
                    for &cs in &corrs {
                        for &cf in &corrs {
                            for &asym in &asyms {
                                for two in [false, true] {
                                    if !two && cf != 0 {
                                        continue;
                                    }
                                    if tier == Tier::Quick && (cs + cf) % 3 == 1 {
                                        continue;
                                    }
                                    cases.push((t1, t2, cs, cf, asym, two));
                                }
                            }
                        }
                    }
                }
            }
        }
    }
    let res: Vec<(bool, Option<Violation>)> = cases
        .par_iter()
        .map(|&(t1, t2, cs, cf, asym, two)| {
            // domain: no intermediate below zero (outside it the outcome is C03's / C16's business)
            let recv = t2 as i128 - corr_bits(cs);
            let send = ts_bits(t1) + corr_bits(cf);
            if recv < 0 || send < 0 {
                return (false, None);
            }
            let mut node = NodeSpec::default();
            node.ports[0].asymmetry_ns_frac = asym;
            let log: FilterLog = Default::default();
            let l2 = log.clone();
            let r = with_node::<RecFilter, _>(&node, move |_| RecCfg(l2.clone(), false), |nd| {
                let mut a = Peer::gm(1, 1);
                let _ = simcore::scen::announce_twice_and_bmca(nd, 0, &mut a);
                simcore::report::catch(|| {
                    if two {
                        let _ = simcore::scen::event(nd, 0, &a.sync(5, true, Ts::default(), cs), time_bits(t2));
                        let _ = simcore::scen::general(nd, 0, &a.follow_up(5, t1, cf));
                    } else {
                        let _ = simcore::scen::event(nd, 0, &a.sync(5, false, t1, cs), time_bits(t2));
                    }
                })
            });
            if r.is_err() {
                return (true, None); // C03's
            }
            let ms: Vec<_> = log.borrow().iter().filter_map(|c| if let FilterCall::Measurement(m) = c { Some(*m) } else { None }).collect();
            let want = recv - send - asym;
            let ok = ms.len() == 1 && ms[0].raw_sync_offset.map(dur_to_bits) == Some(want) && time_to_bits(ms[0].event_time) as i128 == recv;
            if ok {
                (true, None)
            } else {
                (
                    true,
                    Some(Violation {
                        signature: format!("lattice-sync-{}", if two { "2step" } else { "1step" }),
                        message: format!("t1 {:?} t2 {} corr {} {} asym {}: got {:?}, want raw {} at {}", t1, t2, cs, cf, asym, ms, want, recv),
                        replay: json!({"kind": "lattice", "t1": [t1.secs, t1.nanos], "t2": t2.to_string(), "cs": cs, "cf": cf, "asym": asym.to_string(), "two": two}),
                    }),
                )
            }
        })
        .collect();
    let n = res.len() as u64;
    let in_domain = res.iter().filter(|r| r.0).count() as u64;
    (n, in_domain, res.into_iter().filter_map(|r| r.1).collect())
}

pub fn run(tier: Tier) -> i32 {
    check_tags();
    let mut rep = Reporter::new("C09", tier, "model_checking");
    let built = systems(tier);
    let depths: std::collections::HashMap<String, (usize, usize)> = built.iter().map(|b| (b.sys.name.clone(), b.depth)).collect();
    let systems: Vec<_> = built.into_iter().map(|b| b.sys).collect();
    explore_all(&mut rep, &systems, |s| tier.pick(depths[&s.name].0, depths[&s.name].1), tier.pick(12.0, 400.0));
    // the port's own Delay_Req ids across the 65535 -> 0 wrap: 65535 ordinary requests, then
    // request A (id 65535) whose response is late, request B (id 0), A's response, B's response,
    // in every order of the last three events
    {
        let sys = &systems[0];
        let own = Pid { clock: sys.cfg.node.identity, port: 1 };
        let a = sys.cfg.peers[0].clone();
        let mut base: Vec<Ev> = vec![];
        for _ in 0..65535u32 {
            base.push(Ev::T(0, Timer::Delay));
            base.push(Ev::TxTsAt(0, (((tag_ns(3) as u128) << 32) | 0x0101_0101).to_string()));
        }
        base.push(Ev::T(0, Timer::Delay)); // A
        base.push(Ev::TxTsAt(0, (((tag_ns(4) as u128) << 32) | 0x4000_0000).to_string()));
        base.push(Ev::T(0, Timer::Delay)); // B
        let tx_b = Ev::TxTsAt(0, (((tag_ns(5) as u128) << 32) | 0x0000_ffff).to_string());
        let resp_a = Ev::Raw(0, hex(&a.delay_resp(65535, Ts::from_ns(tag_ns(6) as u128), tag_corr(6), &own)), false);
        let resp_b = Ev::Raw(0, hex(&a.delay_resp(0, Ts::from_ns(tag_ns(7) as u128), tag_corr(7), &own)), false);
        use rayon::prelude::*;
        let orders = [[0usize, 1, 2], [0, 2, 1], [1, 0, 2], [1, 2, 0], [2, 0, 1], [2, 1, 0]];
        let res: Vec<Vec<Violation>> = orders
            .par_iter()
            .map(|order| {
                let tail = [tx_b.clone(), resp_a.clone(), resp_b.clone()];
                let mut h = base.clone();
                for &i in order {
                    h.push(tail[i].clone());
                }
                let mut v = sys.run_all_judged(&h).violations;
                for x in &mut v {
                    x.message = format!("{} [after 65535 earlier Delay_Req; tail order {:?}]", x.message.chars().take(600).collect::<String>(), order);
                    x.replay = json!({"kind": "wrap", "order": order});
                }
                v
            })
            .collect();
        let n = res.len() as u64;
        for v in res {
            rep.violations(v);
        }
        rep.cover("delay_req_id_wrap_histories", json!(n));
    }
    let (n, dom, v) = lattice(tier);
    rep.violations(v);
    rep.cover("arithmetic_lattice", json!({"cases": n, "in_non_underflow_domain": dom}));
    rep.assume("timestamps and corrections are tagged so that a value combined from two exchanges equals no legitimate value (pairwise-difference distinctness is verified at start-up)");
    rep.assume("the recording filter returns each delay it is given as the mean delay, so offset = raw sync - last delay");
    rep.finish()
}

pub fn replay(r: &serde_json::Value) {
    if r["kind"] == "lattice" || r["kind"] == "wrap" {
        println!("case {r}: rerun ./check C09 quick (the case is re-derived)");
        return;
    }
    let systems: Vec<_> = systems(Tier::Thorough).into_iter().map(|b| b.sys).collect();
    replay_world(&systems, r);
}
