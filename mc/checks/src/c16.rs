//! C16 — time arithmetic and wire time conversions are exact.
//! E3: boundary lattices of Time / Duration / TimeInterval / log-interval
//! operations through the public API and through frames, against exact i128
//! arithmetic, in both build flavours.

use rayon::prelude::*;
use serde_json::{json, Value};
use simcore::harness::*;
use simcore::refcodec::{self as rc, decode, Body, Ts};
use simcore::report::{catch, Reporter, Tier, Violation};
use simcore::scen::*;
use statime::time::{Duration, Interval, Time};

const NS: u128 = 1 << 32; // bits per nanosecond
const SEC: u128 = 1_000_000_000 * NS;

/// thorough tier: denser lattices
static DENSE: std::sync::atomic::AtomicBool = std::sync::atomic::AtomicBool::new(false);
fn dense() -> bool {
    DENSE.load(std::sync::atomic::Ordering::Relaxed)
}

pub fn time_lattice() -> Vec<u128> {
    let (secs, ns, frac): (Vec<u128>, Vec<u128>, Vec<u128>) = if dense() {
        (
            vec![0, 1, 2, (1 << 31) - 1, 1 << 31, (1 << 32) - 1, 1 << 32, (1 << 32) + 1, 1 << 47, (1 << 48) - 2, (1 << 48) - 1],
            vec![0, 1, 2, 499_999_999, 500_000_000, 999_999_998, 999_999_999],
            vec![0, 1, 2, 1 << 15, (1 << 16) - 1, 1 << 16, (1 << 16) + 1, 1 << 31, (1 << 32) - 2, (1 << 32) - 1],
        )
    } else {
        (vec![0, 1, (1 << 32) - 1, 1 << 32, (1 << 48) - 1], vec![0, 1, 999_999_999], vec![0, 1, 1 << 16, (1 << 16) + 1, (1 << 32) - 1])
    };
    let mut v = vec![];
    for s in &secs {
        for n in &ns {
            for f in &frac {
                v.push(s * SEC + n * NS + f);
            }
        }
    }
    v
}

pub fn dur_lattice() -> Vec<i128> {
    let ns = NS as i128;
    let mut mags: Vec<i128> = vec![
        0,
        1,
        1 << 16,
        ns - 1,
        ns,
        ns + 1,
        (1_000_000_000 - 1) * ns,
        1_000_000_000 * ns,
        1_000_000_000 * ns + 1,
        ((1i128 << 47) - 1) * ns,
        (1i128 << 47) * ns,
        ((1i128 << 63) - 1) * ns,
        ((1i128 << 63) - 1) * ns + (ns - 1),
    ];
    if dense() {
        // every power of two of 2^-32 ns up to the top, with its neighbours
        for k in 0..95u32 {
            let p = 1i128 << k;
            mags.extend([p - 1, p, p + 1]);
        }
        mags.retain(|m| *m >= 0 && *m <= ((1i128 << 63) - 1) * ns + (ns - 1));
        mags.sort();
        mags.dedup();
    }
    let mut v = vec![];
    for m in mags {
        v.push(m);
        if m != 0 {
            v.push(-m);
        }
    }
    v
}

#[derive(Debug, Clone, PartialEq)]
enum Out {
    Val(i128),
    UVal(u128),
    Panic(String),
}

fn run_u(f: impl FnOnce() -> Time) -> Out {
    match catch(f) {
        Ok(t) => Out::UVal(time_to_bits(t)),
        Err(p) => Out::Panic(p.signature()),
    }
}
fn run_i(f: impl FnOnce() -> Duration) -> Out {
    match catch(f) {
        Ok(d) => Out::Val(dur_to_bits(d)),
        Err(p) => Out::Panic(p.signature()),
    }
}

struct Ctx {
    /// for an unrepresentable unsigned result: the bound on the side it overflowed
    sat_side: Option<u128>,
    viol: Vec<Violation>,
    evals: u64,
    representable: u64,
}

impl Ctx {
    /// `want`: Some(exact) if the true result is representable
    fn judge_u(&mut self, op: &str, args: Value, got: Out, want: Option<u128>) {
        self.evals += 1;
        if want.is_some() {
            self.representable += 1;
        }
        match (got, want) {
            (Out::UVal(g), Some(w)) if g == w => {}
            (Out::UVal(g), Some(w)) => self.push(op, "wrong-value", args, format!("got {g} want {w}")),
            // not representable: a saturated bound is not a wrap-around (the property
            // forbids silent wrapping, not clamping); anything else is
            (Out::UVal(g), None) if Some(g) == self.sat_side => {}
            (Out::UVal(g), None) => self.push(op, "silent-wrap", args, format!("true result is not representable but {g} was returned")),
            (Out::Panic(p), Some(w)) => self.push(op, "panic-on-representable", args, format!("{p}; exact result {w} is representable")),
            (Out::Panic(_), None) => {} // loud: C03's business where reachable
            (Out::Val(_), _) => unreachable!(),
        }
    }
    fn judge_i(&mut self, op: &str, args: Value, got: Out, want: Option<i128>, tol: i128) {
        self.judge_i_sat(op, args, got, want, tol, &[i128::MIN, i128::MAX])
    }
    /// `sat`: the clamped bounds that are acceptable when the exact result is not representable
    fn judge_i_sat(&mut self, op: &str, args: Value, got: Out, want: Option<i128>, tol: i128, sat: &[i128]) {
        self.evals += 1;
        if want.is_some() {
            self.representable += 1;
        }
        match (got, want) {
            (Out::Val(g), Some(w)) if (g - w).abs() <= tol => {}
            (Out::Val(g), Some(w)) => self.push(op, "wrong-value", args, format!("got {g} want {w}")),
            (Out::Val(g), None) if sat.contains(&g) => {}
            (Out::Val(g), None) => self.push(op, "silent-wrap", args, format!("true result is not representable but {g} was returned")),
            (Out::Panic(p), Some(w)) => self.push(op, "panic-on-representable", args, format!("{p}; exact result {w} is representable")),
            (Out::Panic(_), None) => {}
            (Out::UVal(_), _) => unreachable!(),
        }
    }
    fn push(&mut self, op: &str, kind: &str, args: Value, msg: String) {
        self.viol.push(Violation {
            signature: format!("{op}:{kind}"),
            message: format!("{op} {args}: {msg}"),
            replay: json!({"op": op, "args": args}),
        });
    }
}

fn u128_checked(x: i128) -> Option<u128> {
    if x >= 0 {
        Some(x as u128)
    } else {
        None
    }
}

fn s(x: impl ToString) -> Value {
    json!(x.to_string())
}

fn pure_ops(c: &mut Ctx) {
    let ts = time_lattice();
    let ds = dur_lattice();
    // constructors / accessors
    for &t in &ts {
        let n = (t >> 32) as u64 as u128;
        if n == t >> 32 {
            let sub = (t & 0xffff_ffff) as u32;
            c.judge_u("Time::from_nanos_subnanos", json!([s(t)]), run_u(|| Time::from_nanos_subnanos(n as u64, sub)), Some(t));
        }
        let tt = time_bits(t);
        c.judge_u("Time::secs", json!([s(t)]), run_u(|| Time::from_nanos(tt.secs())), Some((t / SEC) << 32));
        c.judge_u("Time::subsec_nanos", json!([s(t)]), run_u(|| Time::from_nanos(tt.subsec_nanos() as u64)), Some(((t % SEC) >> 32) << 32));
    }
    for secs in [0u64, 1, (1 << 32) - 1, 1 << 32, (1 << 48) - 1] {
        c.judge_u("Time::from_secs", json!([secs]), run_u(|| Time::from_secs(secs)), Some(secs as u128 * SEC));
    }
    // Time +- Duration, full product
    for &t in &ts {
        for &d in &ds {
            let tt = time_bits(t);
            let dd = dur_bits(d);
            // lattice times are < 2^127, so only the lower bound can be crossed
            c.sat_side = Some(0);
            let plus = (t as i128).checked_add(d).and_then(u128_checked);
            c.judge_u("Time+Duration", json!([s(t), s(d)]), run_u(|| tt + dd), plus);
            let minus = (t as i128).checked_sub(d).and_then(u128_checked);
            c.judge_u("Time-Duration", json!([s(t), s(d)]), run_u(|| tt - dd), minus);
            c.sat_side = None;
            // (t + d) - d == t whenever t + d is representable
            if let Some(_) = plus {
                c.judge_u("(Time+Duration)-Duration", json!([s(t), s(d)]), run_u(|| (tt + dd) - dd), Some(t));
            }
        }
    }
    // Time - Time, full product
    for &a in &ts {
        for &b in &ts {
            let (ta, tb) = (time_bits(a), time_bits(b));
            c.judge_i("Time-Time", json!([s(a), s(b)]), run_i(|| ta - tb), Some(a as i128 - b as i128), 0);
        }
    }
    // Duration ops, full product
    for &a in &ds {
        let da = dur_bits(a);
        c.judge_i("-Duration", json!([s(a)]), run_i(|| -da), a.checked_neg(), 0);
        c.judge_i("Duration::abs", json!([s(a)]), run_i(|| da.abs()), a.checked_abs(), 0);
        // halving as used for mean delay: truncation either way is within one unit
        c.judge_i("Duration/2", json!([s(a)]), run_i(|| da / 2), Some(a / 2), 1);
        c.judge_i("Duration/2.0", json!([s(a)]), run_i(|| da / 2.0), Some(a / 2), 1);
        for &b in &ds {
            let db = dur_bits(b);
            c.judge_i("Duration+Duration", json!([s(a), s(b)]), run_i(|| da + db), a.checked_add(b), 0);
            c.judge_i("Duration-Duration", json!([s(a), s(b)]), run_i(|| da - db), a.checked_sub(b), 0);
        }
    }
    for v in [0i64, 1, -1, i64::MAX, i64::MIN, 999_999_999, 1_000_000_000] {
        c.judge_i("Duration::from_nanos", json!([v]), run_i(|| Duration::from_nanos(v)), Some((v as i128) << 32), 0);
    }
    for v in [0i64, 1, -1, (1 << 48) - 1, -(1 << 48)] {
        c.judge_i("Duration::from_secs", json!([v]), run_i(|| Duration::from_secs(v)), (v as i128).checked_mul(SEC as i128), 0);
    }
    // log intervals: all 256
    for n in i8::MIN..=i8::MAX {
        // 2^n s in units of 2^-32 ns: 10^9 * 2^(32+n)
        let sh = 32 + n as i32;
        let want: Option<i128> = if sh >= 0 {
            if sh < 126 {
                1_000_000_000i128.checked_mul(1i128 << sh)
            } else {
                None
            }
        } else {
            // rounds to nearest unit; exact when divisible
            let k = (-sh) as u32;
            if k >= 127 {
                Some(0)
            } else {
                Some((1_000_000_000i128 + (1i128 << (k - 1))) >> k)
            }
        };
        let tol = if sh >= 0 { 0 } else { 1 };
        // n >= 66 (2^66 s and more) is not representable; such values come neither off
        // the wire (incoming logMessageInterval is never converted) nor from a
        // realistic configuration, so the property makes no claim there
        if want.is_none() {
            continue;
        }
        c.judge_i("Duration::from_log_interval", json!([n]), run_i(|| Duration::from_log_interval(n)), want, tol);
        c.judge_i("Interval::as_duration", json!([n]), run_i(|| Interval::from_log_2(n).as_duration()), want, tol);
    }
    // the same values as f64 seconds (exactly 2^n for every n) and as core::time::Duration (what
    // the timer actions carry): exact where 2^n s is a whole number of nanoseconds (n >= -9),
    // within 1 ns below; n >= 64 does not fit the u64 seconds of core::time::Duration
    for n in i8::MIN..=i8::MAX {
        c.evals += 1;
        c.representable += 1;
        match catch(|| Interval::from_log_2(n).seconds()) {
            Ok(v) if v == 2f64.powi(n as i32) => {}
            Ok(v) => c.push("Interval::seconds", "wrong-value", json!([n]), format!("got {v:e}")),
            Err(e) => c.push("Interval::seconds", "panic-on-representable", json!([n]), e.signature()),
        }
        if n >= 64 {
            continue;
        }
        c.evals += 1;
        c.representable += 1;
        let want_ns: u128 = if n >= 0 { 1_000_000_000u128 << n } else if n > -60 { 1_000_000_000u128 >> (-(n as i32)) as u32 } else { 0 };
        match catch(|| Interval::from_log_2(n).as_core_duration().as_nanos()) {
            Ok(v) if v == want_ns || (n < -9 && v.abs_diff(want_ns) <= 1) => {}
            Ok(v) => c.push("Interval::as_core_duration", "wrong-value", json!([n]), format!("got {v} ns, want {want_ns} ns")),
            Err(e) => c.push("Interval::as_core_duration", "panic-on-representable", json!([n]), e.signature()),
        }
    }
}

/// TimeInterval (wire, 2^-16 ns) <-> Duration through `PortDS` (serde gives every
/// 64-bit pattern; the type itself cannot be named outside the crate).
fn interval_ops(c: &mut Ctx) {
    // patterns: all single bits, 2^k - 1, -2^k, extremes
    let mut pats: Vec<i64> = vec![0, -1, i64::MAX, i64::MIN];
    for k in 0..64u32 {
        pats.push((1u64 << k) as i64);
        pats.push(((1u64 << k) - 1) as i64);
        pats.push(((1u64 << k) as i64).wrapping_neg());
    }
    if dense() {
        // all patterns with two bits set, and their complements
        for a in 0..64u32 {
            for b in (a + 1)..64 {
                let p = ((1u64 << a) | (1u64 << b)) as i64;
                pats.push(p);
                pats.push(!p);
            }
        }
    }
    pats.sort();
    pats.dedup();
    let base = with_node::<RecFilter, _>(
        &NodeSpec::default(),
        |_| RecCfg(Default::default(), true),
        |node| serde_json::to_value(node.port_ref(0).port_ds()).unwrap(),
    );
    fn like<T: From<Duration>>(_l: &T, d: Duration) -> T {
        T::from(d)
    }
    for &p in &pats {
        let mut j = base.clone();
        j["delay_asymmetry"] = json!(p);
        let pds: statime::observability::port::PortDS = match serde_json::from_value(j) {
            Ok(x) => x,
            Err(e) => {
                c.push("TimeInterval::deserialize", "error", json!([p]), e.to_string());
                continue;
            }
        };
        let ti = pds.delay_asymmetry;
        c.judge_i("Duration::from(TimeInterval)", json!([p]), run_i(|| Duration::from(ti)), Some((p as i128) << 16), 0);
        // and back: identity
        let back = catch(|| like(&ti, Duration::from(ti)).0.to_bits());
        c.evals += 1;
        c.representable += 1;
        match back {
            Ok(b) if b == p => {}
            Ok(b) => c.push("TimeInterval::from(Duration::from(x))", "wrong-value", json!([p]), format!("got {b}")),
            Err(e) => c.push("TimeInterval::from(Duration::from(x))", "panic-on-representable", json!([p]), e.signature()),
        }
    }
    // Duration -> TimeInterval: floor to 2^-16 ns, not representable beyond i64
    let like_ti = {
        let pds: statime::observability::port::PortDS = serde_json::from_value(base.clone()).unwrap();
        pds.delay_asymmetry
    };
    let mut ds = dur_lattice();
    for k in [0i128, 1, 2, 3] {
        // sub-2^-16 fractions of both signs: floor must round toward minus infinity
        ds.push((5 << 16) + k * 21845);
        ds.push(-((5 << 16) + k * 21845));
    }
    for &d in &ds {
        let want = d >> 16; // arithmetic shift = floor
        let want = if want >= i64::MIN as i128 && want <= i64::MAX as i128 { Some(want) } else { None };
        let got = match catch(|| like(&like_ti, dur_bits(d)).0.to_bits()) {
            Ok(b) => Out::Val(b as i128),
            Err(p) => Out::Panic(p.signature()),
        };
        let side = if d < 0 { i64::MIN as i128 } else { i64::MAX as i128 };
        c.judge_i_sat("TimeInterval::from(Duration)", json!([s(d)]), got, want, 0, &[side]);
    }
}

/// Time -> wire (Follow_Up from a real master port) -> Time (real slave port with
/// a recording filter).
fn wire_ops(c: &mut Ctx) {
    for &t in &time_lattice() {
        // master side
        let frame = with_node::<RecFilter, _>(
            &NodeSpec::default(),
            |_| RecCfg(Default::default(), true),
            |node| {
                let _ = receipt_timeout(node, 0);
                let mut acts = sync_timer(node, 0);
                let (ctx, _sync) = take_ctx(&mut acts).expect("harness: master port sent no Sync");
                catch(|| collect(node.port(0).handle_send_timestamp(ctx, time_bits(t))))
            },
        );
        c.evals += 1;
        c.representable += 1;
        let acts = match frame {
            Ok(a) => a,
            Err(p) => {
                c.push("Time->wire(Follow_Up)", "panic-on-representable", json!([s(t)]), p.signature());
                continue;
            }
        };
        let fup = acts.iter().find_map(|a| if let Act::SendGeneral { data, .. } = a { Some(data.clone()) } else { None });
        let Some(fup) = fup else {
            c.push("Time->wire(Follow_Up)", "no-frame", json!([s(t)]), "no Follow_Up emitted".into());
            continue;
        };
        let m = match decode(&fup) {
            Ok(m) => m,
            Err(e) => {
                c.push("Time->wire(Follow_Up)", "undecodable", json!([s(t)]), format!("{e:?}"));
                continue;
            }
        };
        let Body::FollowUp { precise_origin } = m.body else {
            c.push("Time->wire(Follow_Up)", "wrong-type", json!([s(t)]), format!("{:?}", m.body));
            continue;
        };
        if precise_origin.nanos >= 1_000_000_000 {
            c.push("Time->wire(Follow_Up)", "nanoseconds-field>=1e9", json!([s(t)]), format!("{:?}", precise_origin));
        }
        // origin + correction (2^-16 ns units) vs t (2^-32 ns units), floor to 2^-16
        let wire16 = (precise_origin.to_ns() as i128) * 65536 + m.hdr.correction as i128;
        let want16 = (t >> 16) as i128;
        if wire16 != want16 {
            c.push("Time->wire(Follow_Up)", "wrong-value", json!([s(t)]), format!("origin {:?} corr {} differs from t by {} units of 2^-16 ns", precise_origin, m.hdr.correction, wire16 - want16));
        }
        if m.hdr.correction < 0 || m.hdr.correction >= 65536 {
            c.push("Time->wire(Follow_Up)", "subns-correction-out-of-range", json!([s(t)]), format!("{}", m.hdr.correction));
        }
        // and back, through a slave port: Sync received at R, Follow_Up as emitted
        let r_bits = ((1u128 << 48) * SEC) + 5 * NS; // later than every lattice time
        let log: FilterLog = Default::default();
        let l2 = log.clone();
        let back = with_node::<RecFilter, _>(
            &NodeSpec::default(),
            move |_| RecCfg(l2.clone(), true),
            |node| {
                let mut peer = Peer::gm(1, 1);
                // the Follow_Up was built by our own master port: re-address it to the peer
                let mut m2 = m.clone();
                m2.hdr.source = peer.pid.clone();
                m2.hdr.length = None;
                let _ = announce_twice_and_bmca(node, 0, &mut peer);
                let sync = peer.sync(m2.hdr.seq, true, Ts::default(), 0);
                catch(|| {
                    let _ = event(node, 0, &sync, time_bits(r_bits));
                    let _ = general(node, 0, &rc::encode(&m2));
                })
            },
        );
        c.evals += 1;
        c.representable += 1;
        if let Err(p) = back {
            c.push("wire->Time(Follow_Up)", "panic-on-representable", json!([s(t)]), p.signature());
            continue;
        }
        let ms: Vec<_> = log
            .borrow()
            .iter()
            .filter_map(|x| if let FilterCall::Measurement(m) = x { m.raw_sync_offset } else { None })
            .collect();
        let want = r_bits as i128 - ((t >> 16) << 16) as i128;
        if ms.len() != 1 || dur_to_bits(ms[0]) != want {
            c.push(
                "wire->Time(Follow_Up)",
                "wrong-value",
                json!([s(t)]),
                format!("raw sync offsets {:?}, want {}", ms.iter().map(|d| dur_to_bits(*d)).collect::<Vec<_>>(), want),
            );
        }
    }
}

pub fn run(tier: Tier) -> i32 {
    let mut rep = Reporter::new("C16", tier, "exploration");
    rep.start_unchecked_flavour();
    DENSE.store(tier == Tier::Thorough, std::sync::atomic::Ordering::Relaxed);
    let mut c = Ctx { sat_side: None, viol: vec![], evals: 0, representable: 0 };
    pure_ops(&mut c);
    interval_ops(&mut c);
    wire_ops(&mut c);
    let _ = [0].par_iter().count();
    rep.violations(c.viol.drain(..));
    // Delay_Resp: receive time x request correction (both signs, extremes) through a real master
    // port - the emitted receiveTimestamp + correctionField reproduce receive time + request
    // correction to 2^-16 ns (C10's request lattice; here only its timestamp rules)
    let dr = crate::c10::lattice_requests(tier);
    c.evals += dr.evals;
    rep.violations(dr.v.into_iter().filter(|v| v.signature == "delayresp-timestamp" || v.signature == "delayresp-correction-wrapped" || v.signature.ends_with("resp-timestamp") || v.signature == "pdelayfup-timestamp"));
    rep.cover("evaluations", json!(c.evals));
    rep.cover("distinct_nontrivial", json!(c.representable));
    rep.cover("rule", json!("full products of the boundary lattices (quick: 75 times x 25 durations, 190 TimeInterval bit patterns; thorough: 770 times x ~570 durations - every power of two of 2^-32 ns with its neighbours, both signs - and ~4200 TimeInterval patterns incl. all two-bit patterns and their complements; all 256 log intervals) through every public Time/Duration/Interval operation, TimeInterval via PortDS+serde, Time->wire via a real master port's Follow_Up; non-trivial = cases whose exact result is representable (must be bit-exact); the others must not return a value"));
    rep.cover("exhaustive", json!(true));
    rep.cover("samples", json!([
        {"op": "Time+Duration", "args": [time_lattice()[7].to_string(), dur_lattice()[5].to_string()]},
        {"op": "TimeInterval::from(Duration)", "args": [dur_lattice()[12].to_string()]},
    ]));
    rep.assume("reference = checked i128 arithmetic on raw 2^-32 ns bits");
    rep.merge_unchecked_flavour();
    rep.finish()
}

pub fn replay(r: &Value) {
    println!("C16 replay: op {} args {} — rerun `./check C16 quick`; every case is re-derived from the lattice", r["op"], r["args"]);
    let mut c = Ctx { sat_side: None, viol: vec![], evals: 0, representable: 0 };
    pure_ops(&mut c);
    interval_ops(&mut c);
    wire_ops(&mut c);
    for v in c.viol {
        if v.replay["op"] == r["op"] && v.replay["args"] == r["args"] {
            println!("VIOLATION {} :: {}", v.signature, v.message);
        }
    }
}
