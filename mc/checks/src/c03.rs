//! C03 — no input, timing or call order makes the library panic or overflow.
//! (a) E3: boundary lattices of frames / timestamps / TLVs in every seeded port
//!     state, each followed by a fixed suffix of host calls;
//! (b) E1: all host-call sequences (any-host) to a depth bound;
//! (c) the filter measurement-sequence space of C13 under the panic monitor.
//! Both build flavours (the unchecked run is a child process).

use rayon::prelude::*;
use serde_json::json;
use simcore::harness::*;
use simcore::refcodec::{self as rc, Pid, Tlv, Ts};
use simcore::report::{Reporter, Tier, Violation};
use simcore::scen::Peer;
use simcore::world::*;

use crate::c08::{build, own_clock_peer, world_defs};

pub fn ev_kind(ev: &Ev) -> String {
    let frame_kind = |h: &str| {
        let b = unhex(h);
        if b.is_empty() {
            return "empty".to_string();
        }
        rc::type_name(b[0] & 0x0f).to_string()
    };
    match ev {
        Ev::T(_, t) => format!("timer-{:?}", t),
        Ev::TxTs(_) | Ev::TxTsAt(_, _) => "send-timestamp".into(),
        Ev::DropTs(_) => "drop-timestamp".into(),
        Ev::Bmca => "bmca".into(),
        Ev::SlaveOnly(_) => "set_slave_only".into(),
        Ev::Quality(_) => "set_clock_quality".into(),
        Ev::Ann(..) | Ev::AnnDup(..) | Ev::AnnStale(..) | Ev::Ann255(..) => "frame-Announce".into(),
        Ev::Sync(..) | Ev::SyncDup(..) => "frame-Sync".into(),
        Ev::Fup(..) | Ev::FupOld(..) => "frame-Follow_Up".into(),
        Ev::DelayResp(..) => "frame-Delay_Resp".into(),
        Ev::DelayReq(..) => "frame-Delay_Req".into(),
        Ev::PdelayReq(..) => "frame-Pdelay_Req".into(),
        Ev::PdelayResp(..) => "frame-Pdelay_Resp".into(),
        Ev::PdelayFup(..) => "frame-Pdelay_Resp_Follow_Up".into(),
        Ev::Frame(..) => "frame-literal".into(),
        Ev::Raw(_, h, _) | Ev::RawAt(_, h, _) => format!("frame-{}", frame_kind(h)),
        Ev::ClockNow(_) => "clock".into(),
        Ev::Macro(_) => "macro".into(),
        Ev::Observe => "observer-getters".into(),
    }
}

pub struct PanicMon;
impl Monitor for PanicMon {
    type St = ();
    fn post(&self, _st: &mut (), _run: &mut Run<'_>, s: &Step, report: Option<&mut Vec<Violation>>) {
        let Some(out) = report else { return };
        if let Some(p) = &s.panic {
            out.push(Violation {
                signature: format!("{}:{}", ev_kind(&s.ev), p.signature()),
                message: format!("{:?} panicked: {} at {}{}", s.ev, p.message, p.location, if s.poisoned { " (instance-state lock poisoned)" } else { "" }),
                replay: json!(null),
            });
        }
    }
}

// ---------------------------------------------------------------------------
// (a) lattice
// ---------------------------------------------------------------------------

pub struct Seeded {
    pub name: &'static str,
    pub cfg: WorldCfg,
    pub seed: Vec<Ev>,
}

fn port(p2p: bool) -> PortSpec {
    PortSpec { p2p, ..Default::default() }
}

pub fn seeded_states() -> Vec<Seeded> {
    let mk = |name: &'static str, f: &dyn Fn(&mut NodeSpec), seed: Vec<Ev>| {
        let mut node = NodeSpec::default();
        f(&mut node);
        let mut cfg = WorldCfg { node: node.clone(), kalman: true, ..Default::default() };
        cfg.peers = vec![Peer::gm(1, 1), Peer::gm(2, 250), own_clock_peer(&node, 1)];
        Seeded { name, cfg, seed }
    };
    let slave = vec![Ev::Ann(0, 0), Ev::Ann(0, 0), Ev::Bmca];
    let faulty = vec![Ev::T(0, Timer::Delay), Ev::TxTs(0), Ev::PdelayResp(0, 0, true, true), Ev::PdelayResp(0, 1, true, true)];
    let bc = vec![Ev::Ann(0, 0), Ev::Ann(0, 0), Ev::T(1, Timer::Receipt), Ev::Bmca];
    vec![
        mk("listening", &|_| {}, vec![]),
        mk("master", &|_| {}, vec![Ev::T(0, Timer::Receipt)]),
        mk("slave-e2e", &|_| {}, slave.clone()),
        mk("passive", &|n| n.class = 6, slave.clone()),
        mk("slave-p2p", &|n| n.ports = vec![port(true)], slave.clone()),
        mk("master-p2p", &|n| n.ports = vec![port(true)], vec![Ev::T(0, Timer::Receipt)]),
        mk("faulty-p2p", &|n| n.ports = vec![port(true)], faulty),
        mk("bc", &|n| n.ports = vec![port(false), port(false)], bc.clone()),
        mk("bc-pathtrace", &|n| { n.ports = vec![port(false), port(false)]; n.path_trace = true }, bc.clone()),
        mk("slave-pathtrace", &|n| n.path_trace = true, slave.clone()),
        mk("slave-only", &|n| n.slave_only = true, vec![]),
        mk("slave-only-slave", &|n| n.slave_only = true, slave.clone()),
        mk("master-only-port", &|n| n.ports = vec![PortSpec { master_only: true, ..Default::default() }], vec![]),
        mk("aml", &|n| {
            n.ports = vec![PortSpec {
                aml: Some(vec![statime::config::ClockIdentity(Peer::gm(1, 1).pid.clock), statime::config::ClockIdentity(Peer::gm(2, 1).pid.clock)]),
                ..Default::default()
            }]
        }, vec![]),
    ]
}

pub fn corr_lattice() -> Vec<i64> {
    let big = ((1i64 << 47) - 1) << 16;
    vec![0, 1, -1, 1 << 16, -(1 << 16), big, -big, i64::MIN, i64::MAX, 0x7fff_ffff_ffff_0000]
}
pub fn corr_small() -> Vec<i64> {
    vec![0, -1, 1 << 16, i64::MIN, i64::MAX, -(((1i64 << 47) - 1) << 16)]
}
pub fn wire_ts_lattice() -> Vec<Ts> {
    let mut v = vec![];
    for secs in [0u64, 1, (1 << 32) - 1, 1 << 32, (1 << 48) - 1] {
        for nanos in [0u32, 999_999_999, 1_000_000_000, u32::MAX] {
            v.push(Ts { secs, nanos });
        }
    }
    v
}
pub fn wire_ts_small() -> Vec<Ts> {
    let mut v = vec![];
    for secs in [0u64, 1 << 32, (1 << 48) - 1] {
        for nanos in [0u32, 999_999_999] {
            v.push(Ts { secs, nanos });
        }
    }
    v
}
/// receive/transmit timestamps in [0, 2^63 ns), as 2^-32 ns bits
pub fn rx_lattice() -> Vec<u128> {
    let mut v = vec![];
    for ns in [0u128, 1, 999_999_999, (1 << 63) - 1] {
        for frac in [0u128, 1, 1 << 31, (1 << 32) - 1] {
            v.push((ns << 32) | frac);
        }
    }
    v
}
pub fn rx_small() -> Vec<u128> {
    let mut v = vec![];
    for ns in [0u128, 999_999_999, 5_000_000_000, (1 << 63) - 1] {
        for frac in [0u128, (1 << 32) - 1] {
            v.push((ns << 32) | frac);
        }
    }
    v
}

fn suffix(n_ports: usize) -> Vec<Ev> {
    let mut v = vec![];
    for p in 0..n_ports {
        v.extend([Ev::T(p, Timer::Announce), Ev::T(p, Timer::Sync), Ev::TxTs(p)]);
    }
    v.push(Ev::Bmca);
    for p in 0..n_ports {
        v.extend([Ev::T(p, Timer::Announce), Ev::T(p, Timer::Delay), Ev::TxTs(p), Ev::T(p, Timer::Filter), Ev::T(p, Timer::Receipt)]);
    }
    v.push(Ev::Bmca);
    for p in 0..n_ports {
        v.extend([Ev::T(p, Timer::Announce), Ev::T(p, Timer::Sync)]);
    }
    v
}

fn raw(p: usize, bytes: &[u8], event: bool) -> Ev {
    Ev::Raw(p, hex(bytes), event)
}
fn raw_at(p: usize, bytes: &[u8], rx: u128) -> Ev {
    Ev::RawAt(p, hex(bytes), rx.to_string())
}

struct Obs {
    viols: Vec<Violation>,
    first_judged: usize,
    key_before: Option<String>,
    nontrivial: bool,
    last_judged: usize,
}
impl Observer for Obs {
    fn pre(&mut self, run: &mut Run<'_>, index: usize, _ev: &Ev) {
        if index == self.first_judged {
            self.key_before = Some(run.key());
        }
    }
    fn post(&mut self, run: &mut Run<'_>, s: &Step) {
        if s.index >= self.first_judged {
            PanicMon.post(&mut (), run, s, Some(&mut self.viols));
            if s.index <= self.last_judged && s.acts.iter().any(|(_, a)| !a.is_empty()) {
                self.nontrivial = true;
            }
            if s.index == self.last_judged && s.panic.is_none() {
                if let Some(k) = &self.key_before {
                    if *k != run.key() {
                        self.nontrivial = true;
                    }
                }
            }
        }
    }
}

/// run seed + lattice events + suffix; returns (violations, lattice part was non-trivial)
fn run_case(st: &Seeded, lattice: &[Ev], with_suffix: bool, scenario: &str) -> (Vec<Violation>, bool) {
    let mut hist = st.seed.clone();
    let first = hist.len();
    hist.extend_from_slice(lattice);
    let last = hist.len() - 1;
    if with_suffix {
        hist.extend(suffix(st.cfg.node.ports.len()));
    }
    let mut obs = Obs { viols: vec![], first_judged: first, key_before: None, nontrivial: false, last_judged: last };
    st.cfg.exec(&hist, &mut obs, |_| ());
    let replay = json!({"kind": "lattice", "state": st.name, "scenario": scenario, "events": lattice, "suffix": with_suffix});
    for v in &mut obs.viols {
        v.replay = replay.clone();
        v.signature = format!("{}/{}", scenario_class(scenario), v.signature);
        v.message = format!("{} [state {} scenario {} lattice events {:?}]", v.message, st.name, scenario, lattice);
    }
    (obs.viols, obs.nontrivial)
}

fn scenario_class(s: &str) -> &str {
    s.split(':').next().unwrap_or(s)
}

#[derive(Default)]
struct Tally {
    evals: u64,
    nontrivial: u64,
    per_scenario: std::collections::BTreeMap<String, (u64, u64)>,
    viols: Vec<Violation>,
}

fn run_batch(t: &mut Tally, st: &Seeded, scenario: &str, cases: Vec<Vec<Ev>>) {
    let res: Vec<(Vec<Violation>, bool)> = cases.par_iter().map(|c| run_case(st, c, true, scenario)).collect();
    let e = t.per_scenario.entry(format!("{}@{}", scenario, st.name)).or_insert((0, 0));
    for (v, nt) in res {
        t.evals += 1;
        e.0 += 1;
        if nt {
            t.nontrivial += 1;
            e.1 += 1;
        }
        // keep one per signature per batch
        for x in v {
            if !t.viols.iter().any(|y| y.signature == x.signature) {
                t.viols.push(x);
            }
        }
    }
}

fn parent() -> Peer {
    Peer::gm(1, 1)
}
fn other() -> Peer {
    Peer::gm(2, 250)
}

fn lattice_sync(t: &mut Tally, st: &Seeded, tier: Tier) {
    // Sync (one-step / two-step) x correction x origin x rx x source; two-step followed by Follow_Up x correction x ts
    let a = parent();
    let b = other();
    let corr = corr_lattice();
    let wts = wire_ts_lattice();
    let rx = rx_lattice();
    let mut cases = vec![];
    for src in [&a, &b] {
        for &c in &corr {
            for &o in &wts {
                for &r in &rx {
                    cases.push(vec![raw_at(0, &src.sync(10, false, o, c), r)]);
                }
            }
        }
    }
    run_batch(t, st, "sync-1step", cases);
    let mut cases = vec![];
    let fcorr = if tier == Tier::Thorough { corr_lattice() } else { corr_small() };
    let fts = if tier == Tier::Thorough { wire_ts_lattice() } else { wire_ts_small() };
    for &c in &corr {
        for &r in &rx {
            for &fc in &fcorr {
                for &ft in &fts {
                    cases.push(vec![raw_at(0, &a.sync(11, true, Ts::default(), c), r), raw(0, &a.follow_up(11, ft, fc), false)]);
                }
            }
        }
    }
    run_batch(t, st, "sync-2step+followup", cases);
    // follow-up first, then sync
    let mut cases = vec![];
    for &fc in &corr_small() {
        for &ft in &wire_ts_small() {
            for &c in &corr_small() {
                for &r in &rx_small() {
                    cases.push(vec![raw(0, &a.follow_up(12, ft, fc), false), raw_at(0, &a.sync(12, true, Ts::default(), c), r)]);
                }
            }
        }
    }
    run_batch(t, st, "followup+sync-2step", cases);
}

fn lattice_delay(t: &mut Tally, st: &Seeded) {
    // a sync measurement first (two magnitudes), then Delay_Req -> tx timestamp -> Delay_Resp
    let a = parent();
    let own = Pid { clock: st.cfg.node.identity, port: 1 };
    let mut cases = vec![];
    for (so, sr) in [(Ts { secs: 5, nanos: 0 }, 5_000_000_100u128 << 32), (Ts { secs: (1 << 48) - 1, nanos: 999_999_999 }, 0u128)] {
        for &tx in &rx_small() {
            for &c in &corr_lattice() {
                for &ts in &wire_ts_small() {
                    for (seq, req) in [(0u16, own.clone()), (1, own.clone()), (0, Pid { clock: own.clock, port: 9 })] {
                        cases.push(vec![
                            raw_at(0, &a.sync(20, false, so, 0), sr),
                            Ev::T(0, Timer::Delay),
                            Ev::TxTsAt(0, tx.to_string()),
                            raw(0, &a.delay_resp(seq, ts, c, &req), false),
                        ]);
                    }
                }
            }
        }
    }
    run_batch(t, st, "delay-exchange", cases);
}

fn lattice_master(t: &mut Tally, st: &Seeded) {
    let b = other();
    let mut cases = vec![];
    for &c in &corr_lattice() {
        for &r in &rx_lattice() {
            cases.push(vec![raw_at(0, &b.delay_req(3, c), r)]);
            cases.push(vec![raw_at(0, &b.pdelay_req(4, c), r)]);
        }
    }
    run_batch(t, st, "requests-to-master", cases);
    let mut cases = vec![];
    for &tx in &rx_lattice() {
        cases.push(vec![Ev::T(0, Timer::Sync), Ev::TxTsAt(0, tx.to_string())]);
        for &c in &corr_small() {
            cases.push(vec![raw_at(0, &b.pdelay_req(4, c), 5_000_000_000u128 << 32), Ev::TxTsAt(0, tx.to_string())]);
        }
    }
    run_batch(t, st, "transmit-timestamps", cases);
}

fn lattice_pdelay(t: &mut Tally, st: &Seeded, tier: Tier) {
    let a = parent();
    let b = other();
    let own = Pid { clock: st.cfg.node.identity, port: 1 };
    let corr = corr_small();
    let wts = wire_ts_small();
    let rx = rx_small();
    // the faulty seed has already sent request 0
    let id: u16 = if st.name.starts_with("faulty") { 1 } else { 0 };
    let mut cases = vec![];
    for &tx in &rx {
        for &c in &corr {
            for &ts in &wts {
                for &r in &rx {
                    // one-step response
                    cases.push(vec![Ev::T(0, Timer::Delay), Ev::TxTsAt(0, tx.to_string()), raw_at(0, &a.pdelay_resp(id, false, ts, c, &own), r)]);
                    // response before the transmit timestamp
                    cases.push(vec![Ev::T(0, Timer::Delay), raw_at(0, &a.pdelay_resp(id, false, ts, c, &own), r), Ev::TxTsAt(0, tx.to_string())]);
                }
            }
        }
    }
    run_batch(t, st, "pdelay-1step", cases);
    let mut cases = vec![];
    let (c2, t2) = if tier == Tier::Thorough { (corr_small(), wire_ts_small()) } else { (vec![0, i64::MIN, i64::MAX], vec![Ts::default(), Ts { secs: (1 << 48) - 1, nanos: 999_999_999 }]) };
    for &tx in &[rx[0], rx[5], rx[7]] {
        for &c in &corr {
            for &ts in &wts {
                for &r in &[rx[0], rx[4], rx[7]] {
                    for &fc in &c2 {
                        for &ft in &t2 {
                            cases.push(vec![
                                Ev::T(0, Timer::Delay),
                                Ev::TxTsAt(0, tx.to_string()),
                                raw_at(0, &a.pdelay_resp(id, true, ts, c, &own), r),
                                raw(0, &a.pdelay_resp_fup(id, ft, fc, &own), false),
                            ]);
                        }
                    }
                }
            }
        }
    }
    // second responder
    for &c in &corr {
        cases.push(vec![
            Ev::T(0, Timer::Delay),
            Ev::TxTs(0),
            raw_at(0, &a.pdelay_resp(id, true, Ts::default(), c, &own), 5_000_000_000u128 << 32),
            raw_at(0, &b.pdelay_resp(id, true, Ts::default(), c, &own), 5_000_000_000u128 << 32),
            raw(0, &a.pdelay_resp_fup(id, Ts::default(), c, &own), false),
        ]);
    }
    run_batch(t, st, "pdelay-2step", cases);
}

/// TLV suffixes of DESIGN C03: none, 4 bytes, odd, truncated, path traces, TLVs around the margin
pub fn tlv_suffixes(path_trace_on: bool) -> Vec<(String, Vec<Tlv>, Vec<u8>)> {
    let mut v: Vec<(String, Vec<Tlv>, Vec<u8>)> = vec![];
    v.push(("none".into(), vec![], vec![]));
    v.push(("zero-length-tlv".into(), vec![Tlv { typ: 0x4000, value: vec![] }], vec![]));
    v.push(("odd-length".into(), vec![Tlv { typ: 0x4000, value: vec![1, 2, 3] }], vec![]));
    v.push(("truncated".into(), vec![], vec![0x40, 0x00, 0x00, 0x08, 1, 2]));
    // two odd-length TLVs: the suffix as a whole has an even length
    v.push(("two-odd-propagating-first".into(), vec![Tlv { typ: 0x4000, value: vec![7; 7] }, Tlv { typ: 0x8001, value: vec![8; 7] }], vec![]));
    v.push(("two-odd-propagating-second".into(), vec![Tlv { typ: 0x8001, value: vec![8; 7] }, Tlv { typ: 0x4000, value: vec![7; 7] }], vec![]));
    v.push(("two-odd-both-propagating".into(), vec![Tlv { typ: 0x4000, value: vec![7; 7] }, Tlv { typ: 0x4001, value: vec![9; 5] }], vec![]));
    v.push(("trailing-2".into(), vec![Tlv { typ: 0x4000, value: vec![1, 2] }], vec![0, 0]));
    for n in [0usize, 1, 2, 117, 118, 119, 120, 127, 128, 129, 200, 240] {
        let mut val = vec![];
        for i in 0..n {
            val.extend_from_slice(&[0xbb, 0, 0, 0, 0, 0, (i >> 8) as u8, i as u8]);
        }
        v.push((format!("path-trace-{n}"), vec![Tlv { typ: 0x0008, value: val }], vec![]));
    }
    // ragged path traces: value lengths that are not a whole number of clock identities
    for len in [2usize, 4, 6, 10, 12, 14, 8 * 127 + 2, 8 * 128 + 4] {
        let val: Vec<u8> = (0..len).map(|i| 0xb0 ^ (i as u8)).collect();
        v.push((format!("path-trace-ragged-{len}"), vec![Tlv { typ: 0x0008, value: val }], vec![]));
    }
    // own identity inside the path (loop)
    v.push(("path-trace-loop".into(), vec![Tlv { typ: 0x0008, value: NodeSpec::default().identity.to_vec() }], vec![]));
    // propagating TLV whose wire size is around the room left in an Announce (1024 - 64 = 960;
    // with path trace on and an empty received path our own TLV takes 12 more)
    let margin = if path_trace_on { 960 - 12 } else { 960 };
    for d in [-4i32, -2, 0, 2, 4] {
        let wire = (margin as i32 + d) as usize;
        v.push((format!("propagating-margin{d:+}"), vec![Tlv { typ: 0x4000, value: vec![0xee; wire - 4] }], vec![]));
        v.push((format!("propagating-7fff-margin{d:+}"), vec![Tlv { typ: 0x7fff, value: vec![0xee; wire - 4] }], vec![]));
    }
    v.push(("propagating-1100".into(), vec![Tlv { typ: 0x4000, value: vec![0xee; 1100] }], vec![]));
    v.push(("propagating-1900".into(), vec![Tlv { typ: 0x4000, value: vec![0xee; 1900] }], vec![]));
    v.push(("zero-length-then-other".into(), vec![Tlv { typ: 0x4000, value: vec![] }, Tlv { typ: 0x8001, value: vec![1, 2] }], vec![]));
    v.push(("two-propagating-half-margin".into(), vec![Tlv { typ: 0x4000, value: vec![1; 476] }, Tlv { typ: 0x4001, value: vec![2; 476] }], vec![]));
    v.push(("alternate-time-offset".into(), vec![Tlv { typ: 0x0009, value: vec![0; 22] }], vec![]));
    v.push(("non-propagating-big".into(), vec![Tlv { typ: 0x8001, value: vec![3; 1000] }], vec![]));
    v
}

fn lattice_announce(t: &mut Tally, st: &Seeded) {
    let node = &st.cfg.node;
    let a = parent();
    let b = other();
    let o = own_clock_peer(node, 1);
    let mut s = a.clone();
    s.pid = Pid { clock: node.identity, port: 1 }; // the port's own identity
    let mut o2 = own_clock_peer(node, 0);
    o2.pid.port = 0;
    let n_ports = node.ports.len();
    let mut cases = vec![];
    for src in [&a, &b, &o, &s, &o2] {
        for steps in [0u16, 1, 253, 254, 255, 65535] {
            for seq0 in [100u16, 65535] {
                for (_label, tlvs, trailing) in tlv_suffixes(node.path_trace) {
                    for p in 0..n_ports {
                        let mut p1 = src.clone();
                        p1.steps_removed = steps;
                        let mut m1 = p1.announce_msg(seq0).with_tlvs(tlvs.clone());
                        m1.trailing = trailing.clone();
                        let mut m2 = p1.announce_msg(seq0.wrapping_add(1)).with_tlvs(tlvs.clone());
                        m2.trailing = trailing.clone();
                        // announce twice (qualifies), BMCA, then the announce timers of every port
                        let mut evs = vec![raw(p, &rc::encode(&m1), false), raw(p, &rc::encode(&m2), false), Ev::Bmca];
                        for q in 0..n_ports {
                            evs.push(Ev::T(q, Timer::Announce));
                        }
                        evs.push(raw(p, &rc::encode(&p1.announce_msg(seq0.wrapping_add(2)).with_tlvs(tlvs.clone())), false));
                        cases.push(evs);
                    }
                }
            }
        }
    }
    run_batch(t, st, "announce", cases);
    // announce content extremes (one at a time around the base)
    let mut cases = vec![];
    for f in 0..10 {
        for v in [0u8, 1, 127, 128, 254, 255] {
            let mut p1 = a.clone();
            match f {
                0 => p1.priority1 = v,
                1 => p1.class = v,
                2 => p1.accuracy = v,
                3 => p1.variance = (v as u16) << 8 | v as u16,
                4 => p1.priority2 = v,
                5 => p1.time_source = v,
                6 => p1.utc_offset = ((v as u16) << 8 | v as u16) as i16,
                7 => p1.flags = [v, v],
                8 => p1.gm_identity = [v; 8],
                _ => p1.log_announce = v as i8,
            }
            cases.push(vec![raw(0, &rc::encode(&p1.announce_msg(1)), false), raw(0, &rc::encode(&p1.announce_msg(2)), false), Ev::Bmca]);
        }
    }
    run_batch(t, st, "announce-content", cases);
    // every TLV value length 0..=1100 (odd ones included) for the TLV types the port interprets
    // itself, on the third Announce of the parent (the port is slave by then where it can be)
    let mut cases = vec![];
    for typ in [0x0008u16, 0x4000, 0x0009] {
        for len in 0..=1100usize {
            if typ != 0x0008 && len % 2 == 1 && len > 64 {
                continue;
            }
            let val: Vec<u8> = (0..len).map(|i| 0xb0 ^ (i as u8)).collect();
            let m3 = a.announce_msg(3).with_tlvs(vec![Tlv { typ, value: val }]);
            let mut evs = vec![raw(0, &rc::encode(&a.announce_msg(1)), false), raw(0, &rc::encode(&a.announce_msg(2)), false), Ev::Bmca, raw(0, &rc::encode(&m3), false)];
            for q in 0..n_ports {
                evs.push(Ev::T(q, Timer::Announce));
            }
            cases.push(evs);
        }
    }
    run_batch(t, st, "announce-tlv-lengths", cases);
}

fn lattice_framing(t: &mut Tally, st: &Seeded) {
    let a = parent();
    let buflens = [0usize, 1, 2, 33, 34, 35, 43, 44, 45, 53, 54, 55, 63, 64, 65, 67, 68, 69, 1023, 1024, 1025, 1091, 1092, 1100, 2047, 2048];
    let mut cases = vec![];
    for ty in 0..16u8 {
        let mut m = crate::c04::base_msg(ty);
        m.hdr.domain = 0;
        m.hdr.major_sdo = 0;
        m.hdr.minor_sdo = 0;
        m.hdr.source = a.pid.clone();
        m.hdr.correction = 0;
        let base = rc::encode(&m);
        for &bl in &buflens {
            for declared in [0usize, 33, 34, bl.saturating_sub(1), bl, bl + 1, 65535] {
                let mut b = base.clone();
                b.resize(bl.max(base.len()), 0);
                // pad region as a well-formed TLV where there is room, so long frames parse
                if bl >= base.len() + 4 {
                    let room = bl - base.len() - 4;
                    b[base.len()] = 0x80;
                    b[base.len() + 1] = 0x08;
                    b[base.len() + 2] = (room >> 8) as u8;
                    b[base.len() + 3] = room as u8;
                }
                b.truncate(bl);
                if b.len() >= 4 {
                    b[2] = (declared >> 8) as u8;
                    b[3] = declared as u8;
                }
                cases.push(vec![raw(0, &b, true)]);
                cases.push(vec![raw(0, &b, false)]);
            }
        }
        // every length from 0 to 130 octets, declared exactly (each body has its own minimum
        // length, and each parser its own idea of it)
        for bl in 0..=130usize {
            let mut b = base.clone();
            b.resize(bl.max(base.len()), 0);
            b.truncate(bl);
            if b.len() >= 4 {
                b[2] = (bl >> 8) as u8;
                b[3] = bl as u8;
            }
            cases.push(vec![raw(0, &b, true)]);
            cases.push(vec![raw(0, &b, false)]);
        }
    }
    run_batch(t, st, "framing", cases);
}

fn lattice_clock(t: &mut Tally, st: &Seeded) {
    // clock reading extremes / failing clock around a sync + delay exchange with the real Kalman filter
    let a = parent();
    let own = Pid { clock: st.cfg.node.identity, port: 1 };
    let mut cases = vec![];
    // the clock stays coherent with the timestamps it produced (now >= every timestamp
    // shown so far); on top of that its reading may already be at the far end
    for now in [0u128, ((1u128 << 63) - 1) << 32] {
        for (o, r) in [(Ts { secs: 5, nanos: 0 }, 5_000_000_100u128 << 32), (Ts { secs: 0, nanos: 0 }, ((1u128 << 63) - 2_000_000_000) << 32), (Ts { secs: (1 << 48) - 1, nanos: 0 }, 0)] {
            cases.push(vec![
                Ev::ClockNow(now.to_string()),
                raw_at(0, &a.sync(30, false, o, 0), r),
                Ev::T(0, Timer::Delay),
                Ev::TxTsAt(0, r.to_string()),
                raw(0, &a.delay_resp(0, o, 0, &own), false),
                raw_at(0, &a.sync(31, false, o, 0), r + (1_000_000_000u128 << 32)),
                Ev::T(0, Timer::Filter),
            ]);
        }
    }
    run_batch(t, st, "clock-readings", cases.clone());
    let mut failing = Seeded { name: st.name, cfg: st.cfg.clone(), seed: st.seed.clone() };
    failing.cfg.clock_fails = true;
    run_batch(t, &failing, "failing-clock", cases);
}

/// several ports of one instance on one segment: every frame reaches all of them (identical
/// bytes), for every masterOnly pattern, sender and delivery order, followed by BMCA runs
fn lattice_shared_segment(t: &mut Tally) {
    for (name, mo) in [("shared-2p", vec![false, false]), ("shared-2p-mo2", vec![false, true]), ("shared-2p-mo1", vec![true, false]), ("shared-2p-mo12", vec![true, true]), ("shared-3p-mo2", vec![false, true, false]), ("shared-3p-mo13", vec![true, false, true])] {
        let mut node = NodeSpec::default();
        node.ports = mo.iter().map(|m| PortSpec { master_only: *m, ..Default::default() }).collect();
        let mut cfg = WorldCfg { node: node.clone(), kalman: true, ..Default::default() };
        cfg.peers = vec![Peer::gm(1, 1), Peer::gm(2, 250), own_clock_peer(&node, 1)];
        let n = mo.len();
        let st = Seeded { name, cfg, seed: vec![] };
        let mut cases = vec![];
        let senders = [Peer::gm(1, 1), Peer::gm(2, 250), own_clock_peer(&node, 1), { let mut p = Peer::gm(3, 1); p.steps_removed = 254; p }];
        for s in &senders {
            for reverse in [false, true] {
                for rounds in [1usize, 2, 3] {
                    let mut c = vec![];
                    for r in 0..rounds {
                        let bytes = rc::encode(&s.announce_msg(100 + r as u16));
                        let order: Vec<usize> = if reverse { (0..n).rev().collect() } else { (0..n).collect() };
                        for p in order {
                            c.push(raw(p, &bytes, false));
                        }
                    }
                    c.push(Ev::Bmca);
                    for p in 0..n {
                        c.push(Ev::T(p, Timer::Announce));
                    }
                    c.push(Ev::Bmca);
                    cases.push(c);
                }
            }
        }
        run_batch(t, &st, "shared-segment", cases);
    }
}

pub fn run_lattice(tier: Tier) -> (Tally2, Vec<Violation>) {
    let mut t = Tally::default();
    lattice_shared_segment(&mut t);
    for st in seeded_states() {
        let n = st.name;
        lattice_framing(&mut t, &st);
        lattice_announce(&mut t, &st);
        if n.starts_with("slave") || n == "bc" || n == "listening" {
            lattice_sync(&mut t, &st, tier);
        }
        if n == "slave-e2e" || n == "bc" || n == "slave-only-slave" {
            lattice_delay(&mut t, &st);
            lattice_clock(&mut t, &st);
        }
        if n.starts_with("master") || n == "bc" || n == "listening" || n == "slave-e2e" {
            let mut st2 = Seeded { name: st.name, cfg: st.cfg.clone(), seed: st.seed.clone() };
            if n == "bc" {
                // address the master port
                st2.seed.push(Ev::Bmca);
            }
            lattice_master(&mut t, &st2);
        }
        if st.cfg.node.ports[0].p2p {
            lattice_pdelay(&mut t, &st, tier);
        }
    }
    let v = std::mem::take(&mut t.viols);
    (Tally2 { evals: t.evals, nontrivial: t.nontrivial, per_scenario: t.per_scenario }, v)
}

pub struct Tally2 {
    pub evals: u64,
    pub nontrivial: u64,
    pub per_scenario: std::collections::BTreeMap<String, (u64, u64)>,
}

// ---------------------------------------------------------------------------
// driver
// ---------------------------------------------------------------------------

pub fn run(tier: Tier) -> i32 {
    let mut rep = Reporter::new("C03", tier, "model_checking");
    rep.start_unchecked_flavour();
    // (a)
    let (tally, viols) = run_lattice(tier);
    rep.violations(viols);
    rep.cover("lattice_evaluations", json!(tally.evals));
    rep.cover("lattice_nontrivial", json!(tally.nontrivial));
    rep.cover(
        "lattice_per_scenario",
        json!(tally.per_scenario.iter().map(|(k, v)| json!({"scenario": k, "cases": v.0, "state_changing_or_acting": v.1})).collect::<Vec<_>>()),
    );
    // (b) any-host exploration of the C08 worlds under the panic monitor
    let built = build("C03", &PanicMon, world_defs(), true);
    let depths: std::collections::HashMap<String, (usize, usize)> = built.iter().map(|(s, d)| (s.name.clone(), *d)).collect();
    let mut systems: Vec<_> = built.into_iter().map(|(s, _)| s).collect();
    for s in &mut systems {
        s.obedient = false; // any host call order
    }
    explore_all(&mut rep, &systems, |s| tier.pick(depths[&s.name].0.saturating_sub(1).max(3), depths[&s.name].1), tier.pick(10.0, 300.0));
    // the same under the configuration sweep, at shallow depth
    let sweep: Vec<_> = build("C03", &PanicMon, crate::c08::sweep_defs(tier == Tier::Quick), true).into_iter().map(|(s, _)| s).collect();
    explore_more(&mut rep, "sweep", &sweep, tier.pick(3, 4), tier.pick(2.0, 30.0));
    // (e) long histories: every per-port counter past its wrap (65540 emissions of each message
    // type a port numbers itself), under the panic monitor
    {
        use rayon::prelude::*;
        let find = |name: &str| systems.iter().find(|s| s.name == name).expect("harness: world");
        let e2e = find("1p-e2e-anyhost");
        let slave = find("1p-e2e-slave-seed");
        let p2p = find("1p-p2p-anyhost");
        let n = 65_540usize;
        let rep2 = |pre: Vec<Ev>, unit: Vec<Ev>| -> Vec<Ev> {
            let mut h = pre;
            for _ in 0..n {
                h.extend(unit.iter().cloned());
            }
            h
        };
        let jobs: Vec<(&str, &WorldSys<'_, PanicMon>, Vec<Ev>)> = vec![
            ("sync", e2e, rep2(vec![Ev::T(0, Timer::Receipt)], vec![Ev::T(0, Timer::Sync), Ev::TxTs(0)])),
            ("announce", e2e, rep2(vec![Ev::T(0, Timer::Receipt)], vec![Ev::T(0, Timer::Announce)])),
            ("delay-req", slave, rep2(vec![], vec![Ev::T(0, Timer::Delay), Ev::TxTs(0)])),
            ("pdelay-req", p2p, rep2(vec![], vec![Ev::T(0, Timer::Delay), Ev::TxTs(0)])),
        ];
        let res: Vec<Vec<Violation>> = jobs
            .par_iter()
            .map(|(what, sys, h)| {
                let mut v = sys.run_all_judged(h).violations;
                for x in &mut v {
                    x.message = format!("{} [in a history of {n} {what} emissions]", x.message.chars().take(500).collect::<String>());
                    x.replay = json!({"kind": "long-history", "what": what});
                }
                v
            })
            .collect();
        for v in res {
            rep.violations(v);
        }
        rep.cover("long_histories", json!({"emissions_each": n, "message_types": ["Sync", "Announce", "Delay_Req", "Pdelay_Req"]}));
    }
    // (c) filter sequences
    let (fevals, fviol) = crate::c13::panic_sweep(tier);
    rep.violations(fviol);
    rep.cover("filter_sequences", json!(fevals));
    rep.cover("evaluations", json!(tally.evals + fevals));
    rep.cover("distinct_nontrivial", json!(tally.nontrivial));
    rep.cover("rule", json!("(a) full products of the per-message-type boundary lattices of DESIGN C03 in 14 seeded port states, each followed by a fixed suffix of timer/BMCA calls; non-trivial = the lattice frames changed the canonical state or produced actions; (b) E1 any-host exploration (states/transitions keys); (c) all measurement sequences of the C13 alphabet"));
    rep.assume("a TrackLock write acquisition unwound by a panic counts as a poisoned lock");
    rep.merge_unchecked_flavour();
    rep.finish()
}

pub fn replay(r: &serde_json::Value) {
    if r["kind"] == "lattice" {
        let name = r["state"].as_str().unwrap();
        let st = seeded_states().into_iter().find(|s| s.name == name).expect("state");
        let mut st = st;
        if r["scenario"] == "failing-clock" {
            st.cfg.clock_fails = true;
        }
        let evs: Vec<Ev> = serde_json::from_value(r["events"].clone()).unwrap();
        let (v, nt) = run_case(&st, &evs, r["suffix"].as_bool().unwrap_or(true), r["scenario"].as_str().unwrap_or(""));
        println!("state {name}, {} lattice events, non-trivial {nt}", evs.len());
        for x in v {
            println!("VIOLATION {} :: {}", x.signature, x.message);
        }
    } else if r["kind"] == "long-history" {
        println!("long-history case {r}: rerun ./check C03 quick (65540 timer events; the case is re-derived)");
    } else if r["kind"] == "filter" {
        crate::c13::replay(r);
    } else {
        let mut defs = world_defs();
        defs.extend(crate::c08::sweep_defs(false));
        let mut systems: Vec<_> = build("C03", &PanicMon, defs, true).into_iter().map(|(s, _)| s).collect();
        for s in &mut systems {
            if !s.name.starts_with("sweep-") {
                s.obedient = false;
            }
        }
        replay_world(&systems, r);
    }
}
