//! C01 — network converges to one grandmaster and a loop-free master/slave tree.
//! E2 over `Net`: topologies x rankings x special attributes x BMCA phases, every
//! execution with at most k departures from the default schedule (per-node,
//! per-interval frame delay; per-port timer jitter), plus single-fault scripts
//! applied to the converged network.

use rayon::prelude::*;
use serde::{Deserialize, Serialize};
use serde_json::json;
use simcore::harness::*;
use simcore::net::*;
use simcore::refcodec::Pid;
use simcore::report::{Reporter, Tier, Violation};
use statime::observability::port::PortState as PS;

#[derive(Clone, Debug, Serialize, Deserialize)]
pub struct Topo {
    pub name: String,
    pub ports: Vec<usize>,
    pub segments: Vec<Vec<(usize, usize)>>,
}

fn topo(name: &str, ports: &[usize], segments: &[&[(usize, usize)]]) -> Topo {
    Topo { name: name.to_string(), ports: ports.to_vec(), segments: segments.iter().map(|s| s.to_vec()).collect() }
}

pub fn topologies(tier: Tier) -> Vec<Topo> {
    let mut v = vec![
        topo("link-2", &[1, 1], &[&[(0, 0), (1, 0)]]),
        topo("chain-3", &[1, 2, 1], &[&[(0, 0), (1, 0)], &[(1, 1), (2, 0)]]),
        topo("shared-3", &[1, 1, 1], &[&[(0, 0), (1, 0), (2, 0)]]),
        topo("ring-3", &[2, 2, 2], &[&[(0, 0), (1, 0)], &[(1, 1), (2, 0)], &[(2, 1), (0, 1)]]),
        topo("dual-port-2", &[2, 1], &[&[(0, 0), (0, 1), (1, 0)]]),
        topo("dual-port-chain-3", &[2, 2, 1], &[&[(0, 0), (0, 1), (1, 0)], &[(1, 1), (2, 0)]]),
        topo("parallel-links-2", &[2, 2], &[&[(0, 0), (1, 0)], &[(0, 1), (1, 1)]]),
        // a boundary clock with an upstream port and two ports on one downstream segment
        // (downstream ports numbered above / below the upstream port)
        topo("upstream+dual-port-3", &[1, 3, 1], &[&[(0, 0), (1, 0)], &[(1, 1), (1, 2), (2, 0)]]),
        topo("dual-port+upstream-3", &[1, 3, 1], &[&[(0, 0), (1, 2)], &[(1, 0), (1, 1), (2, 0)]]),
    ];
    if tier == Tier::Thorough {
        v.push(topo("chain-4", &[1, 2, 2, 1], &[&[(0, 0), (1, 0)], &[(1, 1), (2, 0)], &[(2, 1), (3, 0)]]));
        v.push(topo("ring-4", &[2, 2, 2, 2], &[&[(0, 0), (1, 0)], &[(1, 1), (2, 0)], &[(2, 1), (3, 0)], &[(3, 1), (0, 1)]]));
        v.push(topo("star-4", &[1, 3, 1, 1], &[&[(0, 0), (1, 0)], &[(2, 0), (1, 1)], &[(3, 0), (1, 2)]]));
        v.push(topo("shared-4", &[1, 1, 1, 1], &[&[(0, 0), (1, 0), (2, 0), (3, 0)]]));
        v.push(topo("crossed-parallel-links-2", &[2, 2], &[&[(0, 0), (1, 1)], &[(0, 1), (1, 0)]]));
        v.push(topo("shared-3-plus-tail", &[1, 2, 1, 1], &[&[(0, 0), (1, 0), (2, 0)], &[(1, 1), (3, 0)]]));
    }
    v
}

#[derive(Clone, Copy, Debug, PartialEq, Serialize, Deserialize)]
pub enum RankBy {
    Priority1,
    Class,
    Priority2,
    Identity,
}

#[derive(Clone, Debug, Serialize, Deserialize)]
pub struct Config {
    pub topo: Topo,
    /// order[i] = rank of node i (0 = best)
    pub order: Vec<usize>,
    pub rank_by: RankBy,
    /// node index -> special attribute
    pub best_low_class: bool,
    pub low_class_node: Option<usize>,
    pub slave_only_node: Option<usize>,
    pub phases: Vec<u8>, // thirds of an interval
    /// explicit BMCA phases in ns (overrides `phases`): instants placed inside the jitter window
    /// of the Announce arrivals each node sees in steady state
    #[serde(default)]
    pub critical_phase_ns: Option<Vec<u64>>,
    /// (node, port) configured masterOnly: ports that face away from the grandmaster
    #[serde(default)]
    pub master_only: Vec<(usize, usize)>,
    /// announceReceiptTimeout of every port (0 = the default of 3)
    #[serde(default)]
    pub receipt_timeout: u8,
}

fn node_spec(c: &Config, i: usize) -> NodeSpec {
    let r = c.order[i] as u8;
    let mut n = NodeSpec::default();
    n.identity = [0x20, 0, 0, 0, 0, 0, 0, 0x10 + i as u8];
    n.class = 248;
    n.priority_1 = 128;
    n.priority_2 = 128;
    match c.rank_by {
        RankBy::Priority1 => n.priority_1 = 100 + r,
        RankBy::Class => n.class = 200 + r,
        RankBy::Priority2 => n.priority_2 = 100 + r,
        RankBy::Identity => n.identity = [0x20, 0, 0, 0, 0, 0, r, 0x10 + i as u8],
    }
    if c.best_low_class && r == 0 {
        n.class = 6;
    }
    if c.low_class_node == Some(i) {
        // both ends of the 1..=127 range as well as an interior value (round 7: an exclusive upper bound in the BMCA's range test)
        n.class = if r % 2 == 1 { 127 } else if r == 0 { 7 } else { 1 };
    }
    n.slave_only = c.slave_only_node == Some(i);
    n.ports = (0..c.topo.ports[i]).map(|p| PortSpec { log_sync: 3, master_only: c.master_only.contains(&(i, p)), receipt_timeout: if c.receipt_timeout == 0 { 3 } else { c.receipt_timeout }, ..Default::default() }).collect();
    n
}

pub fn net_spec(c: &Config, horizon_s: u64) -> NetSpec {
    let n = c.topo.ports.len();
    NetSpec {
        nodes: (0..n).map(|i| node_spec(c, i)).collect(),
        segments: c.topo.segments.clone(),
        bmca_phase_ns: match &c.critical_phase_ns {
            Some(p) => p.clone(),
            None => (0..n).map(|i| SEC / 10 + c.phases[i] as u64 * (SEC / 3) + i as u64 * 7_000_000).collect(),
        },
        horizon_ns: horizon_s * SEC,
        delay_min_ns: 10_000,
        // (with the minimum receipt timeout: deliveries up to 80 ms late)
        delay_max_ns: if c.receipt_timeout == 2 { 80_000_000 } else { 900_000 },
        oscillators: vec![],
        kalman: vec![],
        per_frame: None,
        tx_ts_latency_ns: 0,
        one_step: vec![],
        path_asymmetry_ns: 0,
        overlay: vec![],
    }
}

/// ranking key of a node's own data set (lower is better)
fn rank_key(n: &NodeSpec) -> (u8, u8, u8, u16, u8, [u8; 8]) {
    (n.priority_1, n.class, n.accuracy, n.variance, n.priority_2, n.identity)
}

/// connected components of the node graph under the current segment membership
fn components(n: usize, segments: &[Vec<(usize, usize)>], silenced: &[bool]) -> Vec<Vec<usize>> {
    let mut comp: Vec<usize> = (0..n).collect();
    fn find(c: &mut Vec<usize>, x: usize) -> usize {
        if c[x] != x {
            let r = find(c, c[x]);
            c[x] = r;
        }
        c[x]
    }
    for s in segments {
        let members: Vec<usize> = s.iter().map(|x| x.0).filter(|x| !silenced[*x]).collect();
        for w in members.windows(2) {
            let (a, b) = (find(&mut comp, w[0]), find(&mut comp, w[1]));
            comp[a] = b;
        }
    }
    let mut out: std::collections::BTreeMap<usize, Vec<usize>> = Default::default();
    for i in 0..n {
        let r = find(&mut comp, i);
        out.entry(r).or_default().push(i);
    }
    out.into_values().collect()
}

pub struct Judged {
    pub violations: Vec<(String, String)>,
    pub converged_at: Option<u64>,
}

/// judge the snapshots from `t_conv` to `t_end` (stability window) for the given connectivity
pub fn judge(spec: &NetSpec, segments: &[Vec<(usize, usize)>], silenced: &[bool], snaps: &[Snapshot], transitions: &[(u64, usize, usize, PS, PS)], t_conv: u64, t_end: u64) -> Judged {
    let n = spec.nodes.len();
    let mut v: Vec<(String, String)> = vec![];
    let window: Vec<&Snapshot> = snaps.iter().filter(|s| s.t >= t_conv && s.t <= t_end).collect();
    if window.is_empty() {
        return Judged { violations: vec![("no-snapshot".into(), "harness: no snapshot in the window".into())], converged_at: None };
    }
    let pid_of = |node: usize, port: usize| Pid { clock: spec.nodes[node].identity, port: (port + 1) as u16 };
    let check = |s: &Snapshot| -> Vec<(String, String)> {
        let mut v = vec![];
        for comp in components(n, segments, silenced) {
            if comp.iter().all(|i| silenced[*i]) {
                continue;
            }
            // a clockClass < 128 node that is not the best separates regions (it goes passive and
            // the nodes behind it elect their own grandmaster): judge per region only when there is
            // none; with one, only the segment rule and stability are judged
            let capable: Vec<usize> = comp.iter().cloned().filter(|i| !spec.nodes[*i].slave_only).collect();
            if capable.is_empty() {
                continue;
            }
            let best = *capable.iter().min_by_key(|i| rank_key(&spec.nodes[**i])).unwrap();
            let separator = comp.iter().any(|i| *i != best && (1..=127).contains(&spec.nodes[*i].class) && spec.nodes[*i].ports.len() > 1);
            let gm_id = spec.nodes[best].identity;
            if !separator {
                for &i in &comp {
                    let nv = &s.nodes[i];
                    let slaves: Vec<usize> = (0..nv.states.len()).filter(|p| nv.states[*p] == PS::Slave).collect();
                    if i == best {
                        if nv.gm != gm_id || nv.steps != 0 || !slaves.is_empty() {
                            v.push(("best-instance-is-not-grandmaster".into(), format!("t={} node {i} (ranked best) has grandmaster {:?}, stepsRemoved {}, slave ports {:?}", s.t, nv.gm, nv.steps, slaves)));
                        }
                        continue;
                    }
                    let may_be_slave = !(1..=127).contains(&spec.nodes[i].class);
                    if !may_be_slave {
                        // IEEE 1588 makes a non-best clockClass < 128 instance passive (decision P1,
                        // no data set update): it must not act as a master or slave on a port that
                        // hears the better clock
                        if !slaves.is_empty() {
                            v.push(("low-class-instance-is-slave".into(), format!("t={} node {i} clockClass {} has slave ports {:?}", s.t, spec.nodes[i].class, slaves)));
                        }
                        if nv.states.iter().any(|x| *x == PS::Master) && spec.nodes[i].ports.len() == 1 {
                            v.push(("second-grandmaster".into(), format!("t={} node {i} (clockClass {}, not the best) has a master port: {:?}", s.t, spec.nodes[i].class, nv.states)));
                        }
                        continue;
                    }
                    // every node agrees on the grandmaster
                    if nv.gm != gm_id {
                        v.push(("second-grandmaster".into(), format!("t={} node {i} follows grandmaster {:?}, the best instance is node {best}", s.t, nv.gm)));
                        continue;
                    }
                    if may_be_slave {
                        if slaves.len() != 1 {
                            v.push(("not-exactly-one-slave-port".into(), format!("t={} node {i} has slave ports {:?} (states {:?})", s.t, slaves, nv.states)));
                            continue;
                        }
                        // the parent is a master port one step closer to the grandmaster
                        let parent = (0..n).find(|j| spec.nodes[*j].identity == nv.parent.clock);
                        match parent {
                            None => v.push(("parent-unknown".into(), format!("t={} node {i} parent {:?}", s.t, nv.parent))),
                            Some(j) => {
                                let pv = &s.nodes[j];
                                let pport = nv.parent.port as usize - 1;
                                if pv.states.get(pport) != Some(&PS::Master) {
                                    v.push(("parent-port-not-master".into(), format!("t={} node {i} is slave of node {j} port {} which is {:?}", s.t, pport + 1, pv.states.get(pport))));
                                }
                                if pv.steps + 1 != nv.steps {
                                    v.push(("steps-removed-not-decreasing".into(), format!("t={} node {i} stepsRemoved {} parent node {j} stepsRemoved {}", s.t, nv.steps, pv.steps)));
                                }
                            }
                        }
                    } else if !slaves.is_empty() {
                        v.push(("low-class-instance-is-slave".into(), format!("t={} node {i} clockClass {} has slave ports {:?}", s.t, spec.nodes[i].class, slaves)));
                    }
                }
            }
        }
        // every segment with a master-capable instance attached has exactly one master port
        for (si, seg) in segments.iter().enumerate() {
            let live: Vec<&(usize, usize)> = seg.iter().filter(|x| !silenced[x.0]).collect();
            if live.len() < 1 || !live.iter().any(|x| !spec.nodes[x.0].slave_only) {
                continue;
            }
            let masters: Vec<&&(usize, usize)> = live.iter().filter(|x| s.nodes[x.0].states[x.1] == PS::Master).collect();
            if masters.len() != 1 {
                v.push((
                    if masters.is_empty() { "segment-without-master".into() } else { "segment-with-several-masters".into() },
                    format!("t={} segment {si} {:?}: master ports {:?}; states {:?}", s.t, seg, masters, live.iter().map(|x| (x.0, x.1, s.nodes[x.0].states[x.1])).collect::<Vec<_>>()),
                ));
            }
        }
        let _ = pid_of;
        v
    };
    // structural invariants at every snapshot of the window
    for s in &window {
        let r = check(s);
        if !r.is_empty() {
            v.extend(r.into_iter().take(2));
            break;
        }
    }
    // no flapping inside the window
    for w in window.windows(2) {
        if w[0].nodes != w[1].nodes {
            let who: Vec<usize> = (0..n).filter(|i| w[0].nodes[*i] != w[1].nodes[*i]).collect();
            v.push(("steady-state-flaps".into(), format!("between t={} and t={} nodes {:?} changed: {:?} -> {:?}", w[0].t, w[1].t, who, who.iter().map(|i| &w[0].nodes[*i]).collect::<Vec<_>>(), who.iter().map(|i| &w[1].nodes[*i]).collect::<Vec<_>>())));
            break;
        }
    }
    // ... not even for an instant between two snapshots
    if let Some(tr) = transitions.iter().find(|t| t.0 >= t_conv && t.0 <= t_end) {
        v.push(("steady-state-flaps".into(), format!("at t={} node {} port {} went {:?} -> {:?} inside the stability window", tr.0, tr.1, tr.2 + 1, tr.3, tr.4)));
    }
    // when did it converge (first snapshot from which everything stays as at the end)?
    let last = &snaps.last().unwrap().nodes;
    let mut conv = None;
    for s in snaps.iter().rev() {
        if &s.nodes == last {
            conv = Some(s.t);
        } else {
            break;
        }
    }
    Judged { violations: v, converged_at: conv }
}

// convergence bound: receipt timeout upper bound (2 x 3 intervals) + 4 x diameter + 4 intervals
pub const T_CONV: u64 = 20 * SEC;
pub const WINDOW: u64 = 8 * SEC;
const SNAP: u64 = SEC / 4;

pub fn configs(tier: Tier) -> Vec<Config> {
    let mut out = vec![];
    for t in topologies(tier) {
        let n = t.ports.len();
        let orders: Vec<Vec<usize>> = permutations(n);
        for order in &orders {
            for rank_by in [RankBy::Priority1, RankBy::Class, RankBy::Priority2, RankBy::Identity] {
                if tier == Tier::Quick && rank_by != RankBy::Priority1 && order != &orders[0] && order != orders.last().unwrap() {
                    continue;
                }
                let phase_sets: Vec<Vec<u8>> = if tier == Tier::Thorough { vec![vec![0; n], (0..n).map(|i| (i % 3) as u8).collect(), (0..n).map(|i| ((2 * i + 1) % 3) as u8).collect()] } else { vec![vec![0; n], (0..n).map(|i| ((i + 1) % 3) as u8).collect()] };
                for phases in phase_sets {
                    out.push(Config { topo: t.clone(), order: order.clone(), rank_by, best_low_class: false, low_class_node: None, slave_only_node: None, phases: phases.clone(), critical_phase_ns: None, master_only: vec![], receipt_timeout: 0 });
                    if rank_by == RankBy::Priority1 {
                        out.push(Config { topo: t.clone(), order: order.clone(), rank_by, best_low_class: true, low_class_node: None, slave_only_node: None, phases: phases.clone(), critical_phase_ns: None, master_only: vec![], receipt_timeout: 0 });
                        // a non-best leaf with clockClass < 128, a slave-only leaf
                        for i in 0..n {
                            if t.ports[i] == 1 && order[i] != 0 {
                                out.push(Config { topo: t.clone(), order: order.clone(), rank_by, best_low_class: false, low_class_node: Some(i), slave_only_node: None, phases: phases.clone(), critical_phase_ns: None, master_only: vec![], receipt_timeout: 0 });
                                // a slave-only instance is configured as the worst clock (IEEE 1588 gives it
                                // clockClass 255): one that outranks every master never synchronises to anybody
                                if order[i] == n - 1 {
                                    out.push(Config { topo: t.clone(), order: order.clone(), rank_by, best_low_class: false, low_class_node: None, slave_only_node: Some(i), phases: phases.clone(), critical_phase_ns: None, master_only: vec![], receipt_timeout: 0 });
                                }
                            }
                        }
                    }
                }
            }
        }
    }
    // for every configuration with default phases also the variant whose BMCA instants fall
    // inside the jitter window of the Announce arrivals (calibrated on the default execution)
    let base: Vec<Config> = out.iter().filter(|c| c.phases.iter().all(|p| *p == 0)).cloned().collect();
    for c in base {
        let spec = net_spec(&c, (T_CONV + WINDOW) / SEC + 1);
        let res = simulate(&spec, &[], &mut Choices::default(), SEC);
        let n = c.topo.ports.len();
        let mut phases = vec![];
        for i in 0..n {
            // the latest Announce delivered to node i in the default execution
            let last = res.delivered.iter().rev().find(|d| d.1 == i && d.3 == 0xb).map(|d| d.0);
            let jitter_mid = (spec.delay_max_ns - spec.delay_min_ns) / 2;
            phases.push(match last {
                Some(t) => (t + jitter_mid) % SEC,
                None => SEC / 10 + i as u64 * 7_000_000,
            });
        }
        let mut c2 = c.clone();
        c2.critical_phase_ns = Some(phases);
        out.push(c2);
    }
    // the minimum announceReceiptTimeout (2) on every port, with the receipt timers at the low end
    // of their random range: the steady state must still not flap when a delivery is late
    let base: Vec<Config> = out
        .iter()
        .filter(|c| c.rank_by == RankBy::Priority1 && !c.best_low_class && c.low_class_node.is_none() && c.slave_only_node.is_none() && c.critical_phase_ns.is_none() && matches!(c.topo.name.as_str(), "link-2" | "chain-3" | "shared-3" | "parallel-links-2"))
        .cloned()
        .collect();
    for mut c in base {
        c.receipt_timeout = 2;
        out.push(c);
    }
    // masterOnly ports: every port of a boundary clock that ends up MASTER or PASSIVE in the default
    // execution faces away from the grandmaster and may be configured masterOnly; the hierarchy
    // that has to result is the same
    let base: Vec<Config> = out
        .iter()
        .filter(|c| c.rank_by == RankBy::Priority1 && !c.best_low_class && c.low_class_node.is_none() && c.slave_only_node.is_none() && c.critical_phase_ns.is_none() && c.topo.ports.iter().any(|p| *p > 1))
        .cloned()
        .collect();
    for c in base {
        let spec = net_spec(&c, (T_CONV + WINDOW) / SEC + 1);
        let res = simulate(&spec, &[], &mut Choices::default(), SEC);
        let Some(last) = res.snapshots.last() else { continue };
        let n = c.topo.ports.len();
        let best = (0..n).find(|i| c.order[*i] == 0).unwrap();
        for i in 0..n {
            if i == best || c.topo.ports[i] < 2 {
                continue;
            }
            for p in 0..c.topo.ports[i] {
                if matches!(last.nodes[i].states[p], PS::Master | PS::Passive) {
                    let mut c2 = c.clone();
                    c2.master_only = vec![(i, p)];
                    out.push(c2);
                }
            }
        }
    }
    out
}

fn permutations(n: usize) -> Vec<Vec<usize>> {
    if n == 1 {
        return vec![vec![0]];
    }
    let mut out = vec![];
    for p in permutations(n - 1) {
        for i in 0..n {
            let mut q = p.clone();
            q.insert(i, n - 1);
            out.push(q);
        }
    }
    out
}

#[derive(Clone, Debug, Serialize, Deserialize)]
pub enum Script {
    None,
    Fault(FaultS),
}
#[derive(Clone, Debug, Serialize, Deserialize)]
pub enum FaultS {
    Detach(usize, (usize, usize)),
    DetachThenAttach(usize, (usize, usize)),
    Silence(usize),
    SilenceThenUnsilence(usize),
    MakeBest(usize),
    MakeWorst(usize),
}

fn fault_scripts(c: &Config) -> Vec<FaultS> {
    let mut v = vec![];
    if !c.master_only.is_empty() {
        // with a masterOnly port only the scripts that end in the initial connectivity and
        // attributes: elsewhere the new hierarchy may need that port as a slave port
        for (si, seg) in c.topo.segments.iter().enumerate() {
            for at in seg {
                v.push(FaultS::DetachThenAttach(si, *at));
            }
        }
        for i in 0..c.topo.ports.len() {
            v.push(FaultS::SilenceThenUnsilence(i));
        }
        return v;
    }
    for (si, seg) in c.topo.segments.iter().enumerate() {
        for at in seg {
            v.push(FaultS::Detach(si, *at));
            v.push(FaultS::DetachThenAttach(si, *at));
        }
    }
    for i in 0..c.topo.ports.len() {
        v.push(FaultS::Silence(i));
        v.push(FaultS::SilenceThenUnsilence(i));
        v.push(FaultS::MakeBest(i));
        v.push(FaultS::MakeWorst(i));
    }
    v
}

/// run one execution and judge it; returns (violations, choice points, converged_at)
pub fn run_one(c: &Config, script: &Script, dev: &[(usize, usize)]) -> (Vec<(String, String)>, Vec<usize>, Option<u64>) {
    let t_fault = T_CONV + WINDOW;
    let (horizon, faults): (u64, Vec<(u64, Fault)>) = match script {
        Script::None => ((T_CONV + WINDOW) / SEC + 1, vec![]),
        Script::Fault(f) => {
            let h = (t_fault + T_CONV + WINDOW + 12 * SEC) / SEC + 1;
            let fs = match f {
                FaultS::Detach(s, at) => vec![(t_fault, Fault::Detach(*s, *at))],
                FaultS::DetachThenAttach(s, at) => vec![(t_fault, Fault::Detach(*s, *at)), (t_fault + 12 * SEC, Fault::Attach(*s, *at))],
                FaultS::Silence(n) => vec![(t_fault, Fault::Silence(*n))],
                FaultS::SilenceThenUnsilence(n) => vec![(t_fault, Fault::Silence(*n)), (t_fault + 12 * SEC, Fault::Unsilence(*n))],
                FaultS::MakeBest(n) => vec![(t_fault, Fault::Quality(*n, (5, 0x20, 0x100)))],
                FaultS::MakeWorst(n) => vec![(t_fault, Fault::Quality(*n, (255, 0xfe, 0xffff)))],
            };
            (h, fs)
        }
    };
    let mut spec = net_spec(c, horizon);
    let mut choices = Choices::with(dev);
    let res = simulate(&spec, &faults, &mut choices, SNAP);
    let mut v = vec![];
    if let Some(p) = &res.panicked {
        v.push(("panic".to_string(), p.clone()));
        return (v, res.choice_points, None);
    }
    let n = spec.nodes.len();
    let j = judge(&spec, &spec.segments, &vec![false; n], &res.snapshots, &res.transitions, T_CONV, T_CONV + WINDOW);
    v.extend(j.violations.into_iter().map(|(s, m)| (format!("startup:{s}"), m)));
    let conv = j.converged_at;
    if let Script::Fault(f) = script {
        // final connectivity / attributes after the script
        let mut segs = spec.segments.clone();
        let mut silenced = vec![false; n];
        let mut t_last = t_fault;
        match f {
            FaultS::Detach(s, at) => segs[*s].retain(|x| x != at),
            FaultS::DetachThenAttach(..) | FaultS::SilenceThenUnsilence(..) => t_last = t_fault + 12 * SEC,
            FaultS::Silence(i) => silenced[*i] = true,
            FaultS::MakeBest(i) => {
                spec.nodes[*i].class = 5;
                spec.nodes[*i].accuracy = 0x20;
                spec.nodes[*i].variance = 0x100;
            }
            FaultS::MakeWorst(i) => {
                spec.nodes[*i].class = 255;
                spec.nodes[*i].accuracy = 0xfe;
                spec.nodes[*i].variance = 0xffff;
            }
        }
        // a detached single-port node is its own component; a silenced node still hears the others
        // (its frames are lost, not theirs): it is judged as not part of anybody's tree
        let j2 = judge(&spec, &segs, &silenced, &res.snapshots, &res.transitions, t_last + T_CONV, t_last + T_CONV + WINDOW);
        v.extend(j2.violations.into_iter().map(|(s, m)| (format!("after-fault:{s}"), m)));
    }
    (v, res.choice_points, conv)
}

pub fn run(tier: Tier) -> i32 {
    let mut rep = Reporter::new("C01", tier, "model_checking");
    let cfgs = configs(tier);
    // determinism self-check: a few executions twice, with and without a departure
    for c in cfgs.iter().step_by(cfgs.len() / 6 + 1) {
        let spec = net_spec(c, (T_CONV + WINDOW) / SEC + 1);
        assert_deterministic(&spec, &[], &[], SNAP);
        assert_deterministic(&spec, &[], &[(3, 1)], SNAP);
    }
    // iterative deviation bounding: bound 1 is completed for every configuration; thorough then
    // goes on to bound 2, configuration by configuration, until a wall-clock budget is used up
    let budget_s: f64 = std::env::var("VERIF_C01_BUDGET_S").ok().and_then(|s| s.parse().ok()).unwrap_or(1200.0);
    let started = std::time::Instant::now();
    let pass = |k: usize, with_faults: bool, budget: Option<f64>, only_two_nodes: bool| -> Vec<Option<(u64, usize, Vec<Violation>, Option<u64>)>> {
        cfgs.par_iter()
            .enumerate()
            .map(|(ci, c)| {
                if only_two_nodes && c.topo.ports.len() > 2 {
                    return None;
                }
                if let Some(b) = budget {
                    if started.elapsed().as_secs_f64() > b {
                        return None;
                    }
                }
                let mut execs = 0u64;
                let mut viols: Vec<Violation> = vec![];
                let mut add = |script: &Script, dev: &[(usize, usize)], v: Vec<(String, String)>| {
                    for (sig, msg) in v {
                        let class = format!("{}:{}", sig, c.topo.name);
                        if !viols.iter().any(|x| x.signature == class) {
                            viols.push(Violation { signature: class, message: format!("{msg} [config {:?}; script {:?}; deviations {:?}]", c, script, dev), replay: json!({"config": c, "script": script, "dev": dev}) });
                        }
                    }
                };
                let (v0, points, conv) = run_one(c, &Script::None, &[]);
                execs += 1;
                add(&Script::None, &[], v0);
                // deviations (recursive: choice points after the last deviation of the prefix)
                fn explore(c: &Config, script: &Script, prefix: &mut Vec<(usize, usize)>, points: &[usize], k: usize, execs: &mut u64, out: &mut Vec<(Vec<(usize, usize)>, Vec<(String, String)>)>) {
                    if prefix.len() >= k {
                        return;
                    }
                    let start = prefix.last().map(|x| x.0 + 1).unwrap_or(0);
                    for i in start..points.len() {
                        for alt in 1..points[i] {
                            prefix.push((i, alt));
                            let (v, pts, _) = run_one(c, script, prefix);
                            *execs += 1;
                            if !v.is_empty() {
                                out.push((prefix.clone(), v));
                            }
                            explore(c, script, prefix, &pts, k, execs, out);
                            prefix.pop();
                        }
                    }
                }
                let mut found = vec![];
                explore(c, &Script::None, &mut vec![], &points, k, &mut execs, &mut found);
                for (dev, v) in found {
                    add(&Script::None, &dev, v);
                }
                // single-fault scripts on the default schedule (quick: every second configuration)
                if with_faults && (tier == Tier::Thorough || ci % 2 == 0) {
                    for f in fault_scripts(c) {
                        let s = Script::Fault(f);
                        let (v, _pts, _) = run_one(c, &s, &[]);
                        execs += 1;
                        add(&s, &[], v);
                    }
                }
                Some((execs, points.len(), viols, conv))
            })
            .collect()
    };
    let mut results: Vec<(u64, usize, Vec<Violation>, Option<u64>)> = pass(1, true, None, false).into_iter().flatten().collect();
    let mut k = 1;
    let mut bound2_done = 0usize;
    if tier == Tier::Quick {
        // quick: bound 2 on the two-node topologies (no budget: the same set on every run)
        let r2 = pass(2, false, None, true);
        bound2_done = r2.iter().filter(|r| r.is_some()).count();
        results.extend(r2.into_iter().flatten());
    }
    if tier == Tier::Thorough {
        let r2 = pass(2, false, Some(budget_s), false);
        bound2_done = r2.iter().filter(|r| r.is_some()).count();
        if bound2_done == cfgs.len() {
            k = 2;
        } else {
            rep.assume(format!("deviation bound 2 was completed for {bound2_done} of {} configurations within the wall-clock budget of {budget_s} s; bound 1 is complete for all", cfgs.len()));
        }
        results.extend(r2.into_iter().flatten());
    }
    rep.cover("configurations_completed_at_bound_2", json!(bound2_done));
    let mut execs = 0u64;
    let mut max_points = 0;
    let mut worst_conv = 0u64;
    let mut sigs: std::collections::BTreeMap<String, Violation> = Default::default();
    for (e, p, v, conv) in results {
        execs += e;
        max_points = max_points.max(p);
        if let Some(c) = conv {
            worst_conv = worst_conv.max(c);
        }
        for x in v {
            sigs.entry(x.signature.clone()).or_insert(x);
        }
    }
    rep.violations(sigs.into_values());
    rep.cover("states", json!(execs));
    rep.cover("transitions", json!(execs));
    rep.cover("traces_validated_against_impl", json!(execs));
    rep.cover("configurations", json!(cfgs.len()));
    rep.cover("executions", json!(execs));
    rep.cover("deviation_bound", json!(k));
    rep.cover("max_choice_points_per_execution", json!(max_points));
    rep.cover("latest_default_convergence_s", json!(worst_conv as f64 / SEC as f64));
    rep.cover("convergence_bound_s", json!(T_CONV / SEC));
    rep.cover("stability_window_s", json!(WINDOW / SEC));
    rep.cover("exhaustive", json!(true));
    rep.cover("samples", json!(cfgs.iter().step_by(cfgs.len() / 4 + 1).map(|c| json!(c)).collect::<Vec<_>>()));
    rep.assume("'states'/'transitions' count complete executions of the discrete-event simulation (each is one trace of real instances); deviations: per (node, second) all frames take the maximum instead of the minimum delay, per port the timer jitter fraction is 0.05 or 0.95 instead of 0.5");
    rep.assume("a non-best clockClass < 128 boundary clock separates the network (IEEE 1588 makes it passive); components containing one are judged by the segment rule and stability only");
    rep.finish()
}

pub fn replay(r: &serde_json::Value) {
    let c: Config = serde_json::from_value(r["config"].clone()).expect("config");
    let script: Script = serde_json::from_value(r["script"].clone()).unwrap_or(Script::None);
    let dev: Vec<(usize, usize)> = serde_json::from_value(r["dev"].clone()).unwrap_or_default();
    let (v, pts, conv) = run_one(&c, &script, &dev);
    println!("config {:?}\nscript {:?} deviations {:?}\n{} choice points, converged at {:?}", c, script, dev, pts.len(), conv);
    for (s, m) in v {
        println!("VIOLATION {s} :: {m}");
    }
}
