//! C14 — peer-delay measurement is exact and guarded against multiple responders.
//! E1 over `World` (P2P port in each base state); the reference is computed by the
//! monitor from the frames and timestamps actually delivered.

use serde_json::json;
use simcore::harness::*;
use simcore::refcodec::{self as rc, Body, Pid, Ts};
use simcore::report::{Reporter, Tier, Violation};
use simcore::scen::{state_name, Peer};
use simcore::world::*;

#[derive(Default)]
pub struct PdSt {
    /// requests sent: (seq, transmit timestamp bits)
    reqs: Vec<(u16, Option<i128>)>,
    /// responses addressed to us: (seq, responder, two_step, t2 bits, t4 - corr bits)
    resps: Vec<(u16, Pid, bool, i128, i128)>,
    /// follow-ups addressed to us: (seq, responder, t3 + corr bits)
    fups: Vec<(u16, Pid, i128)>,
    /// this step delivers a frame of a second responder for the current request
    second_responder_now: bool,
}

pub struct PdMon;

fn ts_bits(t: Ts) -> i128 {
    (t.to_ns() as i128) << 32
}
fn corr_bits(c: i64) -> i128 {
    (c as i128) << 16
}

impl PdMon {
    fn note(&self, st: &mut PdSt, run: &Run<'_>, bytes: &[u8], rx_bits: Option<u128>, port: usize) {
        st.second_responder_now = false;
        let Ok(m) = rc::decode(bytes) else { return };
        if m.hdr.version != 2 || m.hdr.domain != 0 || m.hdr.sdo() != 0 {
            return;
        }
        let own = run.own_pid(port);
        let current = st.reqs.last().map(|r| r.0);
        let (seq, who) = (m.hdr.seq, m.hdr.source.clone());
        let mut relevant = false;
        match m.body {
            Body::PdelayResp { receipt, requester } if requester == own => {
                if let Some(rx) = rx_bits {
                    st.resps.push((seq, who.clone(), m.hdr.flag(rc::F_TWO_STEP), ts_bits(receipt), rx as i128 - corr_bits(m.hdr.correction)));
                    relevant = true;
                }
            }
            Body::PdelayRespFollowUp { response_origin, requester } if requester == own => {
                st.fups.push((seq, who.clone(), ts_bits(response_origin) + corr_bits(m.hdr.correction)));
                relevant = true;
            }
            _ => {}
        }
        if relevant && Some(seq) == current {
            // responders seen for the current request strictly before this frame
            let n_resps = st.resps.len();
            let n_fups = st.fups.len();
            let is_resp = matches!(rc::decode(bytes).map(|m| m.body), Ok(Body::PdelayResp { .. }));
            let before_resps = if is_resp { &st.resps[..n_resps - 1] } else { &st.resps[..] };
            let before_fups = if is_resp { &st.fups[..] } else { &st.fups[..n_fups - 1] };
            let other = before_resps.iter().filter(|r| r.0 == seq).any(|r| r.1 != who) || before_fups.iter().filter(|f| f.0 == seq).any(|f| f.1 != who);
            if other {
                st.second_responder_now = true;
            }
        }
    }
}

impl Monitor for PdMon {
    type St = PdSt;

    fn pre(&self, st: &mut PdSt, run: &mut Run<'_>, ev: &Ev, _judged: bool) {
        st.second_responder_now = false;
        match ev {
            Ev::RawAt(p, h, bits) => self.note(st, run, &unhex(h), Some(bits.parse().unwrap()), *p),
            Ev::Raw(p, h, on_event) => {
                let rx = if *on_event { Some((run.cfg.rx_ns as u128) << 32) } else { None };
                self.note(st, run, &unhex(h), rx, *p)
            }
            Ev::TxTsAt(p, bits) => {
                if let Some((_, data)) = run.hosts[*p].pending.front() {
                    if let Ok(m) = rc::decode(data) {
                        if matches!(m.body, Body::PdelayReq { .. }) {
                            let v: u128 = bits.parse().unwrap();
                            if let Some(e) = st.reqs.iter_mut().rev().find(|(s, _)| *s == m.hdr.seq) {
                                e.1 = Some(v as i128);
                            }
                        }
                    }
                }
            }
            _ => {}
        }
    }

    fn post(&self, st: &mut PdSt, _run: &mut Run<'_>, s: &Step, report: Option<&mut Vec<Violation>>) {
        let mut local = vec![];
        for (_, acts) in &s.acts {
            for a in acts {
                if let Some(Ok(m)) = &a.decoded {
                    if matches!(m.body, Body::PdelayReq { .. }) && a.kind == "SendEvent" {
                        // matching by sequence id presupposes that consecutive requests differ
                        if let Some((prev, _)) = st.reqs.last() {
                            if m.hdr.seq != prev.wrapping_add(1) {
                                local.push(Violation {
                                    signature: "pdelay-request-ids-not-consecutive".into(),
                                    message: format!("Pdelay_Req with sequence id {} follows one with id {}: a late or duplicated response to the earlier request would be taken for the later one", m.hdr.seq, prev),
                                    replay: json!(null),
                                });
                            }
                        }
                        st.reqs.push((m.hdr.seq, None));
                        if st.reqs.len() > 8 {
                            st.reqs.remove(0);
                            // (responses and follow-ups of forgotten requests go with them)
                            let keep: Vec<u16> = st.reqs.iter().map(|r| r.0).collect();
                            st.resps.retain(|r| keep.contains(&r.0));
                            st.fups.retain(|f| keep.contains(&f.0));
                        }
                    }
                }
            }
        }
        let p = 0usize;
        let before = s.before[p];
        let after = s.after[p];
        let mut measured = false;
        for (_, c) in &s.filter_calls {
            let FilterCall::Measurement(m) = c else { continue };
            let Some(pd) = m.peer_delay else { continue };
            measured = true;
            let got = dur_to_bits(pd);
            let ev_bits = time_to_bits(m.event_time) as i128;
            let mut ok = false;
            let mut contaminated = false;
            let mut clean_match = false;
            for (seq, t1) in &st.reqs {
                let Some(t1) = t1 else { continue };
                for (rseq, who, two, t2, t4c) in &st.resps {
                    if rseq != seq {
                        continue;
                    }
                    // did anybody else answer THIS request?
                    let several = st.resps.iter().filter(|r| r.0 == *seq).any(|r| r.1 != *who) || st.fups.iter().filter(|f| f.0 == *seq).any(|f| f.1 != *who);
                    let mut matches = false;
                    if *two {
                        for (fseq, fwho, t3c) in &st.fups {
                            if fseq == seq && fwho == who {
                                let want = ((t4c - t1) - (t3c - t2)) / 2;
                                if (got - want).abs() <= 1 && ev_bits == *t4c {
                                    matches = true;
                                }
                            }
                        }
                    } else {
                        let want = (t4c - t1) / 2;
                        if (got - want).abs() <= 1 && ev_bits == *t4c {
                            matches = true;
                        }
                    }
                    if matches {
                        ok = true;
                        if several {
                            contaminated = true;
                        } else {
                            clean_match = true;
                        }
                    }
                }
            }
            if !ok {
                local.push(Violation {
                    signature: "peer-delay-not-from-one-exchange".into(),
                    message: format!(
                        "peer delay {} at event time {} matches no single request/response(/follow-up) of one responder: requests {:?} responses {:?} follow-ups {:?}",
                        got, ev_bits, st.reqs, st.resps, st.fups
                    ),
                    replay: json!(null),
                });
            }
            if ok && contaminated && !clean_match {
                local.push(Violation {
                    signature: "measurement-from-request-answered-by-several-responders".into(),
                    message: format!("a link delay was computed (and a faulty port recovers) from a request that several responders answered: responses {:?} follow-ups {:?}", st.resps, st.fups),
                    replay: json!(null),
                });
            }
            if m.offset.is_some() || m.delay.is_some() || m.raw_sync_offset.is_some() || m.raw_delay_offset.is_some() {
                local.push(Violation { signature: "mixed-measurement".into(), message: format!("{:?}", m), replay: json!(null) });
            }
        }
        // second responder for the request that is still current
        if st.second_responder_now && s.panic.is_none() {
            if !matches!(after, PS::Faulty) {
                local.push(Violation {
                    signature: format!("second-responder-not-faulty:{}", state_name(before)),
                    message: format!("a second responder answered the current request, port is {} instead of Faulty (responses {:?}, follow-ups {:?})", state_name(after), st.resps, st.fups),
                    replay: json!(null),
                });
            }
            if measured {
                local.push(Violation {
                    signature: "second-responder-message-used".into(),
                    message: "the frame of the second responder produced a measurement".into(),
                    replay: json!(null),
                });
            }
        }
        // behaviour while faulty
        if matches!(before, PS::Faulty) && s.panic.is_none() {
            for (_, acts) in &s.acts {
                for a in acts {
                    if let Some(Ok(m)) = &a.decoded {
                        if matches!(m.body, Body::Announce(_) | Body::Sync { .. } | Body::FollowUp { .. } | Body::DelayResp { .. }) {
                            local.push(Violation {
                                signature: format!("faulty-port-emits-{}", rc::type_name(m.hdr.msg_type)),
                                message: format!("faulty port emitted {}", rc::type_name(m.hdr.msg_type)),
                                replay: json!(null),
                            });
                        }
                    }
                }
            }
            if s.clock_cmds.iter().any(|(_, c, _)| !matches!(c, ClockCmd::SetProps)) {
                local.push(Violation { signature: "faulty-port-steers".into(), message: format!("{:?}", s.clock_cmds), replay: json!(null) });
            }
            if !matches!(after, PS::Faulty) {
                if !measured {
                    local.push(Violation {
                        signature: format!("leaves-faulty-without-clean-exchange:{}->{}", ev_class(&s.ev), state_name(after)),
                        message: format!("{:?} moved the faulty port to {} without a completed exchange", s.ev, state_name(after)),
                        replay: json!(null),
                    });
                } else if matches!(after, PS::Master | PS::Slave) {
                    local.push(Violation {
                        signature: "recovers-directly-to-master-or-slave".into(),
                        message: format!("recovered straight to {}", state_name(after)),
                        replay: json!(null),
                    });
                }
            } else if measured && !st.second_responder_now {
                local.push(Violation {
                    signature: "stays-faulty-after-clean-exchange".into(),
                    message: "an exchange answered by one responder completed but the port is still faulty".into(),
                    replay: json!(null),
                });
            }
        }
        if let Some(out) = report {
            out.extend(local);
        }
    }
}

fn ev_class(e: &Ev) -> String {
    crate::c03::ev_kind(e)
}

fn tag_ns(i: usize) -> u64 {
    const T: [u64; 24] = [3, 17, 61, 157, 419, 1031, 2687, 6571, 15803, 37799, 90001, 214003, 508009, 1205041, 2856097, 6765209, 16000057, 37800011, 89300017, 211000033, 499000043, 1180000027, 2790000037, 6590000041];
    1_000_000_000 * 50 + T[i % 24] * 1_013
}
fn tag_corr(i: usize) -> i64 {
    const C: [i64; 8] = [5 << 16 | 0x0123, -(9 << 16 | 0x0771), 21 << 16 | 0x3001, -(47 << 16 | 0x10f1), 0x4567, -0x2101, 101 << 16, 0];
    C[i % 8]
}

static MON: PdMon = PdMon;

pub fn systems(tier: Tier) -> Vec<(WorldSys<'static, PdMon>, (usize, usize))> {
    let mut out = vec![];
    let slave = vec![Ev::Ann(0, 0), Ev::Ann(0, 0), Ev::Bmca];
    for (name, class, seed, depth) in [
        ("p2p-listening", 248u8, vec![], (6usize, 8usize)),
        ("p2p-master", 248, vec![Ev::T(0, Timer::Receipt)], (6, 7)),
        ("p2p-slave", 248, slave.clone(), (6, 7)),
        ("p2p-passive", 6, slave.clone(), (5, 7)),
        // slave-only instance: listening, and slave of A
        ("p2p-slaveonly-listening", 255, vec![], (5, 7)),
        ("p2p-slaveonly-slave", 255, slave.clone(), (5, 7)),
        // a configured delay asymmetry (+200.25 ns, -1500 ns) does not enter the link delay
        ("p2p-listening-asym+200.25", 248, vec![], (5, 7)),
        ("p2p-slave-asym-1500", 248, slave.clone(), (5, 6)),
    ] {
        if tier == Tier::Quick && name == "p2p-passive" {
            // kept in quick too, at lower depth
        }
        let mut node = NodeSpec::default();
        node.class = class;
        node.slave_only = name.contains("slaveonly");
        let asym: i128 = if name.contains("asym+200.25") { (200i128 << 32) + (1 << 30) } else if name.contains("asym-1500") { -(1500i128 << 32) } else { 0 };
        node.ports = vec![PortSpec { p2p: true, asymmetry_ns_frac: asym, ..Default::default() }];
        let mut cfg = WorldCfg { node: node.clone(), log_in_key: true, ..Default::default() };
        let a = Peer::gm(1, 1);
        let r1 = Peer::gm(0x51, 100);
        let r2 = Peer::gm(0x52, 100);
        let mut r1b = r1.clone();
        r1b.pid.port = 2; // another port of responder 1's clock is another responder
        cfg.peers = vec![a.clone(), crate::c08::own_clock_peer(&node, 0)];
        let own = Pid { clock: node.identity, port: 1 };
        let mut alpha = Alpha::new().add(Ev::T(0, Timer::Delay));
        let mut t = 0usize;
        alpha = alpha.add(Ev::TxTsAt(0, (((tag_ns(t) as u128) << 32) | 0x4000_0001).to_string()));
        t += 1;
        alpha = alpha.add(Ev::TxTsAt(0, (((tag_ns(t) as u128) << 32) | 0x0fff_0000).to_string()));
        t += 1;
        for (ri, r) in [&r1, &r2, &r1b].iter().enumerate() {
            for seq in [0u16, 1] {
                if ri == 2 && seq == 1 {
                    continue;
                }
                let rx = ((tag_ns(t) as u128) << 32) | (0x1111_1111u128 * (ri as u128 + 1));
                alpha = alpha.add(Ev::RawAt(0, hex(&r.pdelay_resp(seq, true, Ts::from_ns(tag_ns(t + 1) as u128), tag_corr(t), &own)), rx.to_string()));
                t += 2;
                alpha = alpha.add(Ev::Raw(0, hex(&r.pdelay_resp_fup(seq, Ts::from_ns(tag_ns(t) as u128), tag_corr(t), &own)), false));
                t += 1;
                if ri < 2 && seq == 0 {
                    // one-step responder
                    let rx = ((tag_ns(t) as u128) << 32) | 0x7000_0007;
                    alpha = alpha.add(Ev::RawAt(0, hex(&r.pdelay_resp(seq, false, Ts::default(), tag_corr(t), &own)), rx.to_string()));
                    t += 1;
                }
            }
        }
        // the rest of the protocol keeps running around the exchange
        alpha = alpha
            .add(Ev::T(0, Timer::Receipt))
            .add(Ev::T(0, Timer::Announce))
            .add(Ev::T(0, Timer::Sync))
            .add(Ev::Bmca)
            .add(Ev::Ann(0, 0))
            .add(Ev::Ann(0, 1))
            .add(Ev::Sync(0, 0, false))
            .add(Ev::DelayReq(0, 0));
        out.push((
            WorldSys { property: "C14", name: name.to_string(), cfg, seed, alphabet: alpha.0, obedient: false, monitor: &MON, macros: vec![] },
            depth,
        ));
    }
    out
}

pub fn run(tier: Tier) -> i32 {
    let mut rep = Reporter::new("C14", tier, "model_checking");
    let built = systems(tier);
    let depths: std::collections::HashMap<String, (usize, usize)> = built.iter().map(|(s, d)| (s.name.clone(), *d)).collect();
    let systems: Vec<_> = built.into_iter().map(|(s, _)| s).collect();
    explore_all(&mut rep, &systems, |s| tier.pick(depths[&s.name].0, depths[&s.name].1), tier.pick(12.0, 400.0));
    // the port's own Pdelay_Req ids across the 65535 -> 0 wrap: 65536 requests with their transmit
    // timestamps, then one more exchange answered by a single one-step responder
    {
        let sys = systems.iter().find(|s| s.name == "p2p-listening").expect("harness: world");
        let mut h: Vec<Ev> = vec![];
        for _ in 0..65_537u32 {
            h.push(Ev::T(0, Timer::Delay));
            h.push(Ev::TxTsAt(0, (((tag_ns(0) as u128) << 32) | 0x4000_0001).to_string()));
        }
        let mut v = sys.run_all_judged(&h).violations;
        for x in &mut v {
            x.message = format!("{} [in a history of 65537 Pdelay_Req]", x.message.chars().take(500).collect::<String>());
            x.replay = json!({"kind": "wrap"});
        }
        rep.violations(v);
        rep.cover("pdelay_req_id_wrap_history", json!(65_537));
    }
    // end to end: a real requesting port and a real responding port (the library's own responder)
    // over a symmetric link of d ns; the request spends c ns in a transparent clock on its way
    // (added to its correctionField), the response path is direct.  The delay handed to the
    // requester's filter must be d, whatever c.
    {
        use simcore::scen::*;
        let mut cases = 0u64;
        for d in [0i64, 800, 123_456] {
            for c in [0i64, 1, 5_000, 123_456, 40_000_000, -700] {
                for sub in [0i64, 0x8000] {
                    cases += 1;
                    let mut rq = NodeSpec::default();
                    rq.ports = vec![PortSpec { p2p: true, ..Default::default() }];
                    let mut rs = NodeSpec::default();
                    rs.identity = [0x77, 0, 0, 0, 0, 0, 0, 9];
                    rs.ports = vec![PortSpec { p2p: true, ..Default::default() }];
                    let log: FilterLog = Default::default();
                    let log2 = log.clone();
                    let got = with_node::<RecFilter, _>(&rq, move |_| RecCfg(log2.clone(), false), |r| {
                        with_node::<RecFilter, _>(&rs, |_| RecCfg(Default::default(), false), |s| {
                            let t1: u64 = 100_000_000_000;
                            let mut acts = delay_timer(r, 0);
                            let (ctx, mut req) = take_ctx(&mut acts)?;
                            let _ = collect(r.port(0).handle_send_timestamp(ctx, time_ns(t1)));
                            // residence time in a transparent clock (2^-16 ns units)
                            let corr = i64::from_be_bytes(req[8..16].try_into().unwrap()) + (c << 16) + sub;
                            req[8..16].copy_from_slice(&corr.to_be_bytes());
                            let t2 = (t1 as i64 + d + c) as u64;
                            let mut a2 = event(s, 0, &req, time_bits(((t2 as u128) << 32) + ((sub as u128) << 16)));
                            let (ctx2, resp) = take_ctx(&mut a2)?;
                            let t3 = t2 + 3_000;
                            let a3 = collect(s.port(0).handle_send_timestamp(ctx2, time_ns(t3)));
                            let fup = a3.iter().find_map(|a| if let Act::SendGeneral { data, .. } = a { Some(data.clone()) } else { None })?;
                            let t4 = (t3 as i64 + d) as u64;
                            let _ = event(r, 0, &resp, time_ns(t4));
                            let _ = general(r, 0, &fup);
                            Some(())
                        })
                    });
                    let measured: Vec<i128> = log.borrow().iter().filter_map(|x| if let FilterCall::Measurement(m) = x { m.peer_delay.map(dur_to_bits) } else { None }).collect();
                    let want = (d as i128) << 32;
                    if got.is_none() || measured.len() != 1 || (measured[0] - want).abs() > 1 << 32 {
                        rep.violation(Violation {
                            signature: "peer-delay-end-to-end-wrong".into(),
                            message: format!("link of {d} ns, request corrected by {c} ns (+{sub} * 2^-16 ns) on its way, the library's own responder: the requester's filter was handed {:?} (2^-32 ns), expected {want}", measured),
                            replay: json!({"kind": "end-to-end", "d": d, "c": c, "sub": sub}),
                        });
                    }
                }
            }
        }
        rep.cover("end_to_end_exchanges", json!(cases));
    }
    rep.assume("a second responder's frame that arrives only after the next request went out is not required to raise the fault (the port can no longer match it); it must then simply not be used");
    rep.assume("timestamps/corrections are tagged; one-step responders carry the turnaround in the correction field, so link delay = (t4 - corr - t1)/2");
    rep.finish()
}

pub fn replay(r: &serde_json::Value) {
    if r["kind"] == "end-to-end" {
        println!("end-to-end case {r}: rerun ./check C14 quick (the case is re-derived)");
        return;
    }
    if r["kind"] == "wrap" {
        println!("wrap case {r}: rerun ./check C14 quick (65537 delay timers; the case is re-derived)");
        return;
    }
    let systems: Vec<_> = systems(Tier::Thorough).into_iter().map(|(s, _)| s).collect();
    replay_world(&systems, r);
}
