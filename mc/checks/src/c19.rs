//! C19 — observability data reaches the metrics endpoint unaltered.
//! E3: instance states (from real instances driven through the protocol, and a
//! value lattice on top of them) -> public getters -> ObservableInstanceState ->
//! serde_json -> harness-served unix socket -> REAL exporter binary -> HTTP, with
//! a reference parser for HTTP framing and the OpenMetrics exposition text, and
//! a table metric -> value derived from each metric's own help text and unit.

use serde_json::json;
use simcore::dbg::{self, Dbg};
use simcore::harness::*;
use simcore::refcodec::{self as rc, Tlv};
use simcore::report::{Reporter, Tier, Violation};
use simcore::scen::*;
use statime::config::TimePropertiesDS;
use statime::observability::{current::CurrentDS, port::PortDS};
use statime_linux::metrics::exporter::{ObservableState, ProgramData};
use statime_linux::observer::ObservableInstanceState;
use std::collections::BTreeMap;
use std::time::Duration as StdDuration;

use crate::exporter::*;

// ---------------------------------------------------------------------------
// reference exposition parser
// ---------------------------------------------------------------------------

#[derive(Debug, Default, Clone)]
pub struct Family {
    pub help: Option<String>,
    pub typ: Option<String>,
    pub unit: Option<String>,
    pub samples: Vec<(BTreeMap<String, String>, String)>,
}

/// parse OpenMetrics text; returns families by name or a description of the first flaw
pub fn parse_exposition(body: &str) -> Result<BTreeMap<String, Family>, String> {
    let mut fams: BTreeMap<String, Family> = BTreeMap::new();
    let mut order: Vec<String> = vec![];
    let mut lines: Vec<&str> = body.split('\n').collect();
    if lines.last() != Some(&"") {
        return Err("body does not end with a newline".into());
    }
    lines.pop();
    if lines.last() != Some(&"# EOF") {
        return Err(format!("last line is {:?}, not '# EOF'", lines.last()));
    }
    lines.pop();
    let mut current: Option<String> = None;
    for (no, l) in lines.iter().enumerate() {
        if l.is_empty() {
            return Err(format!("line {no}: empty line"));
        }
        if let Some(rest) = l.strip_prefix("# ") {
            let mut it = rest.splitn(3, ' ');
            let kind = it.next().unwrap_or("");
            let name = it.next().ok_or(format!("line {no}: metadata without a metric name"))?.to_string();
            let text = it.next().unwrap_or("").to_string();
            if !matches!(kind, "HELP" | "TYPE" | "UNIT") {
                return Err(format!("line {no}: unknown metadata {kind}"));
            }
            if kind == "EOF" {
                return Err(format!("line {no}: # EOF before the end"));
            }
            if current.as_deref() != Some(&name) {
                if fams.contains_key(&name) {
                    return Err(format!("line {no}: family {name} is not contiguous"));
                }
                order.push(name.clone());
                current = Some(name.clone());
            }
            let f = fams.entry(name.clone()).or_default();
            if !f.samples.is_empty() {
                return Err(format!("line {no}: metadata of {name} after its samples"));
            }
            match kind {
                "HELP" => {
                    if f.help.replace(text).is_some() {
                        return Err(format!("line {no}: second HELP for {name}"));
                    }
                }
                "TYPE" => {
                    if !matches!(text.as_str(), "gauge" | "counter" | "info" | "unknown" | "stateset" | "histogram" | "summary") {
                        return Err(format!("line {no}: bad TYPE {text}"));
                    }
                    if f.typ.replace(text).is_some() {
                        return Err(format!("line {no}: second TYPE for {name}"));
                    }
                }
                _ => {
                    if !name.ends_with(&format!("_{text}")) {
                        return Err(format!("line {no}: UNIT {text} is not the suffix of {name}"));
                    }
                    if f.unit.replace(text).is_some() {
                        return Err(format!("line {no}: second UNIT for {name}"));
                    }
                }
            }
            continue;
        }
        if l.starts_with('#') {
            return Err(format!("line {no}: malformed comment {l:?}"));
        }
        // sample: name[{labels}] value
        let (name, rest) = match l.find(|c| c == '{' || c == ' ') {
            Some(i) => (&l[..i], &l[i..]),
            None => return Err(format!("line {no}: sample without value")),
        };
        if name.is_empty() || !name.chars().all(|c| c.is_ascii_alphanumeric() || c == '_' || c == ':') || name.chars().next().unwrap().is_ascii_digit() {
            return Err(format!("line {no}: bad metric name {name:?}"));
        }
        let mut labels = BTreeMap::new();
        let mut rest = rest;
        if let Some(r) = rest.strip_prefix('{') {
            let mut r = r;
            loop {
                if let Some(after) = r.strip_prefix('}') {
                    rest = after;
                    break;
                }
                let eq = r.find('=').ok_or(format!("line {no}: label without '='"))?;
                let key = &r[..eq];
                if key.is_empty() || !key.chars().all(|c| c.is_ascii_alphanumeric() || c == '_') {
                    return Err(format!("line {no}: bad label name {key:?}"));
                }
                r = r[eq + 1..].strip_prefix('"').ok_or(format!("line {no}: label value not quoted"))?;
                let mut val = String::new();
                let mut chars = r.char_indices();
                let mut end = None;
                while let Some((i, c)) = chars.next() {
                    match c {
                        '\\' => match chars.next() {
                            Some((_, 'n')) => val.push('\n'),
                            Some((_, '"')) => val.push('"'),
                            Some((_, '\\')) => val.push('\\'),
                            other => return Err(format!("line {no}: bad escape {other:?}")),
                        },
                        '"' => {
                            end = Some(i);
                            break;
                        }
                        c => val.push(c),
                    }
                }
                let end = end.ok_or(format!("line {no}: unterminated label value"))?;
                if labels.insert(key.to_string(), val).is_some() {
                    return Err(format!("line {no}: duplicate label {key}"));
                }
                r = &r[end + 1..];
                if let Some(a) = r.strip_prefix(',') {
                    r = a;
                } else if !r.starts_with('}') {
                    return Err(format!("line {no}: junk after label value"));
                }
            }
        }
        let value = rest.strip_prefix(' ').ok_or(format!("line {no}: no space before the value"))?;
        if value.is_empty() || value.contains(' ') {
            return Err(format!("line {no}: bad value {value:?}"));
        }
        if value.parse::<f64>().is_err() {
            return Err(format!("line {no}: value {value:?} is not a number"));
        }
        if current.as_deref() != Some(name) {
            return Err(format!("line {no}: sample of {name} outside its family block"));
        }
        let f = fams.get_mut(name).unwrap();
        if f.samples.iter().any(|s| s.0 == labels) {
            return Err(format!("line {no}: duplicate sample {name}{labels:?}"));
        }
        f.samples.push((labels, value.to_string()));
    }
    for (n, f) in &fams {
        if f.help.is_none() || f.typ.is_none() {
            return Err(format!("family {n} lacks HELP or TYPE"));
        }
        if n.ends_with("_seconds") != (f.unit.as_deref() == Some("seconds")) || n.ends_with("_nanoseconds") != (f.unit.as_deref() == Some("nanoseconds")) {
            return Err(format!("family {n}: unit {:?} inconsistent with its name", f.unit));
        }
    }
    Ok(fams)
}

// ---------------------------------------------------------------------------
// expected values
// ---------------------------------------------------------------------------

fn cid(c: &[u8; 8]) -> String {
    c.iter().map(|b| format!("{:02x}", b)).collect::<Vec<_>>().join(":")
}

/// value of a Duration in nanoseconds as an exact decimal-comparable f64 pair
fn dur_ns(d: statime::time::Duration) -> f64 {
    dur_to_bits(d) as f64 / 4294967296.0
}

fn close(got: &str, want: f64) -> bool {
    match got.parse::<f64>() {
        Ok(g) => {
            let tol = want.abs() * 1e-12 + 1e-9;
            (g - want).abs() <= tol
        }
        Err(_) => false,
    }
}

pub fn expected(state: &ObservableState) -> Vec<(String, BTreeMap<String, String>, f64)> {
    let i = &state.instance;
    let mut out = vec![];
    let base: BTreeMap<String, String> = [("clock_identity".to_string(), cid(&i.default_ds.clock_identity.0))].into_iter().collect();
    let b = |v: bool| if v { 1.0 } else { 0.0 };
    let mut push = |name: &str, labels: &BTreeMap<String, String>, v: f64| out.push((name.to_string(), labels.clone(), v));
    let mut up = BTreeMap::new();
    up.insert("version".to_string(), state.program.version.clone());
    up.insert("build_commit".to_string(), state.program.build_commit.clone());
    up.insert("build_commit_date".to_string(), state.program.build_commit_date.clone());
    push("statime_uptime_seconds", &up, state.program.uptime_seconds);
    push("statime_number_ports", &base, i.default_ds.number_ports as f64);
    push("statime_quality_class", &base, i.default_ds.clock_quality.clock_class as f64);
    push("statime_quality_accuracy", &base, i.default_ds.clock_quality.clock_accuracy.to_primitive() as f64);
    push("statime_quality_offset_scaled_log_variance", &base, i.default_ds.clock_quality.offset_scaled_log_variance as f64);
    push("statime_priority_1", &base, i.default_ds.priority_1 as f64);
    push("statime_priority_2", &base, i.default_ds.priority_2 as f64);
    push("statime_steps_removed", &base, i.current_ds.steps_removed as f64);
    push("statime_offset_from_master_nanoseconds", &base, dur_ns(i.current_ds.offset_from_master));
    push("statime_mean_delay_nanoseconds", &base, dur_ns(i.current_ds.mean_delay));
    let mut pl = base.clone();
    pl.insert("parent_clock_identity".into(), cid(&i.parent_ds.parent_port_identity.clock_identity.0));
    pl.insert("parent_port_number".into(), i.parent_ds.parent_port_identity.port_number.to_string());
    let q = i.parent_ds.grandmaster_clock_quality;
    push("statime_grandmaster_clock_quality_class", &pl, q.clock_class as f64);
    push("statime_grandmaster_clock_quality_accuracy", &pl, q.clock_accuracy.to_primitive() as f64);
    push("statime_grandmaster_clock_quality_offset_scaled_log_variance", &pl, q.offset_scaled_log_variance as f64);
    push("statime_grandmaster_priority_1", &pl, i.parent_ds.grandmaster_priority_1 as f64);
    push("statime_grandmaster_priority_2", &pl, i.parent_ds.grandmaster_priority_2 as f64);
    let tp = &i.time_properties_ds;
    if let Some(u) = tp.current_utc_offset {
        push("statime_current_utc_offset_seconds", &base, u as f64);
    }
    use statime::config::LeapIndicator as L;
    push(
        "statime_upcoming_leap_seconds",
        &base,
        match tp.leap_indicator {
            L::NoLeap => 60.0,
            L::Leap59 => 59.0,
            L::Leap61 => 61.0,
        },
    );
    push("statime_time_traceable", &base, b(tp.time_traceable));
    push("statime_frequency_traceable", &base, b(tp.frequency_traceable));
    push("statime_ptp_timescale", &base, b(tp.ptp_timescale));
    push("statime_time_source", &base, tp.time_source.to_primitive() as f64);
    push("statime_path_trace_enable", &base, b(i.path_trace_ds.enable));
    for (k, c) in i.path_trace_ds.list.iter().enumerate() {
        let mut l = base.clone();
        l.insert("node".into(), cid(&c.0));
        push("statime_path_trace_list", &l, k as f64);
    }
    let mut l = base.clone();
    l.insert("node".into(), "self".into());
    push("statime_path_trace_list", &l, i.path_trace_ds.list.len() as f64);
    for p in &i.port_ds {
        let mut l = base.clone();
        l.insert("port".into(), p.port_identity.port_number.to_string());
        use statime::observability::port::PortState as S;
        let st = match p.port_state {
            S::Initializing => 1,
            S::Faulty => 2,
            S::Disabled => 3,
            S::Listening => 4,
            S::PreMaster => 5,
            S::Master => 6,
            S::Passive => 7,
            S::Uncalibrated => 8,
            S::Slave => 9,
        };
        push("statime_port_state", &l, st as f64);
        if let statime::observability::port::DelayMechanism::P2P { mean_link_delay, .. } = p.delay_mechanism {
            push("statime_mean_link_delay_nanoseconds", &l, mean_link_delay.0.to_bits() as f64 / 65536.0);
        }
    }
    out
}

// ---------------------------------------------------------------------------
// states
// ---------------------------------------------------------------------------

fn observe(node: &Node<'_, RecFilter>) -> ObservableInstanceState {
    let contribution = (0..node.ports.len()).find_map(|p| node.port_ref(p).port_current_ds_contribution());
    ObservableInstanceState {
        default_ds: node.inst.default_ds(),
        current_ds: node.inst.current_ds(contribution),
        parent_ds: node.inst.parent_ds(),
        time_properties_ds: node.inst.time_properties_ds(),
        path_trace_ds: node.inst.path_trace_ds(),
        port_ds: (0..node.ports.len()).map(|p| node.port_ref(p).port_ds()).collect(),
    }
}

/// getters == live state, read from the Debug tree of the ports / the instance state
fn getters_vs_debug(node: &Node<'_, RecFilter>, o: &ObservableInstanceState) -> Vec<String> {
    let mut bad = vec![];
    for p in 0..node.ports.len() {
        let text = dbg::strip_packet_buffer(&format!("{:?}", node.port_ref(p)));
        let Ok(tree) = dbg::parse(&text) else {
            eprintln!("machinery error: cannot parse port Debug output");
            std::process::exit(2);
        };
        let st = tree.get("instance_state");
        let chk = |what: &str, got: String, want: String, bad: &mut Vec<String>| {
            if got != want {
                bad.push(format!("{what}: getter {got} live {want}"));
            }
        };
        if p == 0 {
            chk("default_ds.number_ports", o.default_ds.number_ports.to_string(), st.get("default_ds.number_ports").atom().to_string(), &mut bad);
            chk("default_ds.priority_1", o.default_ds.priority_1.to_string(), st.get("default_ds.priority_1").atom().to_string(), &mut bad);
            chk("default_ds.priority_2", o.default_ds.priority_2.to_string(), st.get("default_ds.priority_2").atom().to_string(), &mut bad);
            chk("default_ds.slave_only", o.default_ds.slave_only.to_string(), st.get("default_ds.slave_only").atom().to_string(), &mut bad);
            chk("default_ds.clock_class", o.default_ds.clock_quality.clock_class.to_string(), st.get("default_ds.clock_quality.clock_class").atom().to_string(), &mut bad);
            chk("default_ds.variance", o.default_ds.clock_quality.offset_scaled_log_variance.to_string(), st.get("default_ds.clock_quality.offset_scaled_log_variance").atom().to_string(), &mut bad);
            chk("default_ds.clock_identity", format!("{:?}", o.default_ds.clock_identity.0.to_vec()), format!("{:?}", st.get("default_ds.clock_identity.0").bytes()), &mut bad);
            chk("current_ds.steps_removed", o.current_ds.steps_removed.to_string(), st.get("current_ds.steps_removed").atom().to_string(), &mut bad);
            chk("parent_ds.gm_identity", format!("{:?}", o.parent_ds.grandmaster_identity.0.to_vec()), format!("{:?}", st.get("parent_ds.grandmaster_identity.0").bytes()), &mut bad);
            chk("parent_ds.parent_clock", format!("{:?}", o.parent_ds.parent_port_identity.clock_identity.0.to_vec()), format!("{:?}", st.get("parent_ds.parent_port_identity.clock_identity.0").bytes()), &mut bad);
            chk("parent_ds.parent_port", o.parent_ds.parent_port_identity.port_number.to_string(), st.get("parent_ds.parent_port_identity.port_number").atom().to_string(), &mut bad);
            chk("parent_ds.gm_class", o.parent_ds.grandmaster_clock_quality.clock_class.to_string(), st.get("parent_ds.grandmaster_clock_quality.clock_class").atom().to_string(), &mut bad);
            chk("parent_ds.gm_priority_1", o.parent_ds.grandmaster_priority_1.to_string(), st.get("parent_ds.grandmaster_priority_1").atom().to_string(), &mut bad);
            chk("parent_ds.gm_priority_2", o.parent_ds.grandmaster_priority_2.to_string(), st.get("parent_ds.grandmaster_priority_2").atom().to_string(), &mut bad);
            chk("time_properties_ds", format!("{:?}", o.time_properties_ds), st.get("time_properties_ds").render(), &mut bad);
            chk("path_trace.len", o.path_trace_ds.list.len().to_string(), st.get("path_trace_ds.list").list().len().to_string(), &mut bad);
            chk("path_trace.enable", o.path_trace_ds.enable.to_string(), st.get("path_trace_ds.enable").atom().to_string(), &mut bad);
        }
        let live_state = tree.get("port_state").name().to_string();
        chk(&format!("port{p}.state"), format!("{:?}", o.port_ds[p].port_state), live_state, &mut bad);
        chk(&format!("port{p}.number"), o.port_ds[p].port_identity.port_number.to_string(), tree.get("port_identity.port_number").atom().to_string(), &mut bad);
        chk(&format!("port{p}.master_only"), o.port_ds[p].master_only.to_string(), tree.get("config.master_only").atom().to_string(), &mut bad);
    }
    bad
}

fn program() -> ProgramData {
    ProgramData { version: "0.4.0".into(), build_commit: "c0ffee\"quoted\\back".into(), build_commit_date: "2026-01-01".into(), uptime_seconds: 12.5 }
}

/// instance states reached by driving real instances
fn real_states(tier: Tier) -> Vec<(String, ObservableInstanceState, Vec<String>)> {
    let mut out = vec![];
    let mut add = |name: &str, spec: NodeSpec, script: &dyn Fn(&mut Node<'_, RecFilter>)| {
        let r = with_node::<RecFilter, _>(&spec, |_| RecCfg(Default::default(), false), |node| {
            script(node);
            let o = observe(node);
            let bad = getters_vs_debug(node, &o);
            (o, bad)
        });
        let mut r = r;
        // the one state whose link delay is known from its script: t1 = 1000 ns, one-step response
        // with zero correction received at 3469.5 ns, so (3469.5 - 1000) / 2 = 1234.75 ns - on a
        // port that is not slave
        if name == "p2p-with-link-delay" {
            if let statime::observability::port::DelayMechanism::P2P { mean_link_delay, .. } = r.0.port_ds[0].delay_mechanism {
                let want = (1234i64 << 16) + (3 << 14);
                if mean_link_delay.0.to_bits() != want {
                    r.1.push(format!("port0.mean_link_delay: exposed {} x 2^-16 ns, the completed exchange measured {} x 2^-16 ns", mean_link_delay.0.to_bits(), want));
                }
            }
        }
        out.push((name.to_string(), r.0, r.1));
    };
    let two = |p2p: bool| {
        let mut n = NodeSpec::default();
        n.ports = vec![PortSpec { p2p, ..Default::default() }, PortSpec { master_only: true, ..Default::default() }];
        n
    };
    add("fresh", NodeSpec::default(), &|_| {});
    add("grandmaster", two(false), &|n| {
        let _ = receipt_timeout(n, 0);
        let _ = receipt_timeout(n, 1);
        let _ = n.bmca();
    });
    for flags in 0..64u8 {
        add(&format!("slave-flags-{flags:#x}"), two(false), &|n| {
            let mut a = Peer::gm(1, 1);
            a.flags = [0, flags];
            a.utc_offset = -7 + flags as i16;
            a.time_source = [0x10, 0x20, 0x30, 0x39, 0x40, 0x50, 0x60, 0x90, 0xa0, 0xf3, 0xff, 0x01][flags as usize % 12];
            a.steps_removed = flags as u16 * 3;
            a.class = flags.wrapping_mul(4);
            a.accuracy = 0x17 + flags % 0x1b;
            let _ = announce_twice_and_bmca(n, 0, &mut a);
            let _ = receipt_timeout(n, 1);
        });
    }
    // one attribute at a time through its whole octet range (quick: boundary values), once as
    // the parent's announced grandmaster data on a real slave, once as the instance's own data
    let octets: Vec<u8> = if tier == Tier::Thorough { (0..=255).collect() } else { vec![0, 1, 6, 7, 0x17, 0x20, 0x31, 0x32, 0x7f, 0x80, 0xa0, 0xfd, 0xfe, 0xff] };
    for field in 0..6usize {
        for &v in &octets {
            add(&format!("slave-parent-field{field}-{v:#x}"), two(false), &|n| {
                let mut a = Peer::gm(1, 1);
                a.steps_removed = 1;
                match field {
                    0 => a.priority1 = v.min(127), // must stay better than the instance
                    1 => a.class = v,
                    2 => a.accuracy = v,
                    3 => a.variance = (v as u16) << 8 | v as u16,
                    4 => a.priority2 = v,
                    _ => a.time_source = v,
                }
                let _ = announce_twice_and_bmca(n, 0, &mut a);
            });
            let mut own = two(false);
            match field {
                0 => own.priority_1 = v,
                1 => own.class = v,
                2 => own.accuracy = v,
                3 => own.variance = (v as u16) << 8 | v as u16,
                4 => own.priority_2 = v,
                _ => own.domain = v,
            }
            add(&format!("own-field{field}-{v:#x}"), own, &|n| {
                let _ = receipt_timeout(n, 0);
                let _ = n.bmca();
            });
        }
    }
    for steps in [0u16, 1, 2, 253, 254] {
        add(&format!("slave-steps-{steps}"), two(false), &|n| {
            let mut a = Peer::gm(1, 1);
            a.steps_removed = steps;
            if steps > 0 {
                // the parent is a boundary clock: the grandmaster is somebody else
                a.gm_identity = [0xcc, 1, 2, 3, 4, 5, 6, steps as u8];
            }
            let _ = announce_twice_and_bmca(n, 0, &mut a);
        });
    }
    // a slave three steps from the grandmaster loses its master: the port is master (or, on a
    // slave-only instance, listening) and the data sets still name the old parent until the BMCA runs
    for slave_only in [false, true] {
        let mut spec = two(false);
        spec.slave_only = slave_only;
        if slave_only {
            spec.ports.truncate(1);
        }
        add(&format!("slave-then-receipt-timeout-before-bmca-{slave_only}"), spec, &|n| {
            let mut a = Peer::gm(1, 1);
            a.steps_removed = 3;
            a.gm_identity = [0xcc, 9, 9, 9, 9, 9, 9, 9];
            let _ = announce_twice_and_bmca(n, 0, &mut a);
            let _ = receipt_timeout(n, 0);
        });
    }
    add("passive", { let mut n = two(false); n.class = 6; n }, &|n| {
        let mut a = Peer::gm(1, 1);
        let _ = announce_twice_and_bmca(n, 0, &mut a);
    });
    add("faulty-p2p", two(true), &|n| {
        let mut acts = delay_timer(n, 0);
        if let Some((ctx, _)) = take_ctx(&mut acts) {
            let _ = collect(n.port(0).handle_send_timestamp(ctx, time_ns(1000)));
        }
        let own = own_pid(n, 0);
        let _ = event(n, 0, &Peer::gm(0x31, 1).pdelay_resp(0, true, rc::Ts::default(), 0, &own), time_ns(2000));
        let _ = event(n, 0, &Peer::gm(0x32, 1).pdelay_resp(0, true, rc::Ts::default(), 0, &own), time_ns(2000));
    });
    add("p2p-with-link-delay", two(true), &|n| {
        let mut acts = delay_timer(n, 0);
        if let Some((ctx, _)) = take_ctx(&mut acts) {
            let _ = collect(n.port(0).handle_send_timestamp(ctx, time_ns(1_000)));
        }
        let own = own_pid(n, 0);
        let _ = event(n, 0, &Peer::gm(0x31, 1).pdelay_resp(0, false, rc::Ts::default(), 0, &own), time_bits((3_469u128 << 32) | 0x8000_0000));
    });
    for len in [0usize, 1, 2, 17, 127, 128] {
        let mut spec = two(false);
        spec.path_trace = true;
        add(&format!("path-trace-{len}"), spec, &|n| {
            let mut a = Peer::gm(1, 1);
            let mut v = vec![];
            for i in 0..len {
                v.extend_from_slice(&[0xbb, 0, 0, 0, 0, 0, (i >> 8) as u8, i as u8]);
            }
            let f1 = a.announce_with_tlvs(vec![Tlv { typ: 0x0008, value: v.clone() }]);
            let _ = general(n, 0, &f1);
            let f2 = a.announce_with_tlvs(vec![Tlv { typ: 0x0008, value: v.clone() }]);
            let _ = general(n, 0, &f2);
            let _ = n.bmca();
            let f3 = a.announce_with_tlvs(vec![Tlv { typ: 0x0008, value: v }]);
            let _ = general(n, 0, &f3);
        });
    }
    out
}

/// value lattice on top of a base state
fn lattice_states(base: &ObservableInstanceState, tier: Tier) -> Vec<(String, ObservableInstanceState)> {
    let mut out = vec![];
    let ns = 1i128 << 32;
    let mags: Vec<i128> = vec![0, 1, ns, ns + 1, 2_147_483_647 * ns, 2_147_483_648 * ns, 2_147_483_649 * ns, 4_294_967_295 * ns, 4_294_967_296 * ns, 4_294_967_297 * ns, 10_000_000_000 * ns, 10_000_000_000 * ns + 12345];
    let mut vals = vec![];
    for m in &mags {
        vals.push(*m);
        if *m != 0 {
            vals.push(-*m);
        }
    }
    for &o in &vals {
        for &d in if tier == Tier::Thorough { &vals[..] } else { &vals[..7] } {
            let mut s = base.clone();
            s.current_ds = CurrentDS { steps_removed: 3, offset_from_master: dur_bits(o), mean_delay: dur_bits(d) };
            out.push((format!("offset {o} delay {d}"), s));
        }
    }
    // time properties: every boolean combination x leap x utc
    use statime::config::{LeapIndicator as L, TimeSource as T};
    for bits in 0..8u8 {
        for leap in [L::NoLeap, L::Leap59, L::Leap61] {
            for utc in [None, Some(0i16), Some(37), Some(-1), Some(i16::MIN), Some(i16::MAX)] {
                let mut s = base.clone();
                let mut tp = TimePropertiesDS::new_ptp_time(utc, leap, bits & 1 != 0, bits & 2 != 0, T::Gnss);
                tp.ptp_timescale = bits & 4 != 0;
                s.time_properties_ds = tp;
                out.push((format!("time properties bits {bits} leap {:?} utc {:?}", leap, utc), s));
            }
        }
    }
    // every port state and delay mechanism x mean link delay x delay asymmetry (both signs), the
    // port records built in Rust (not through the deserialiser under test); a TimeInterval value
    // is what a real port configured with that delay asymmetry exposes
    use statime::observability::port::{DelayMechanism as DM, PortState as OPS};
    let ti = |bits: i64| {
        let mut n = NodeSpec::default();
        n.ports[0].asymmetry_ns_frac = (bits as i128) << 16;
        let v = with_node::<RecFilter, _>(&n, |_| RecCfg(Default::default(), false), |node| node.port_ref(0).port_ds().delay_asymmetry);
        assert_eq!(v.0.to_bits(), bits, "harness: a configured delay asymmetry of {bits} x 2^-16 ns is exposed unchanged (C16)");
        v
    };
    let pb0 = base.port_ds[0];
    for st in [OPS::Initializing, OPS::Faulty, OPS::Disabled, OPS::Listening, OPS::PreMaster, OPS::Master, OPS::Passive, OPS::Uncalibrated, OPS::Slave] {
        for mld in [0i64, 1, -1, 65536, -(250 << 16), 1 << 40, -(1 << 40), i64::MAX, i64::MIN] {
            let mut pa = pb0;
            pa.port_state = st;
            pa.delay_mechanism = DM::P2P { log_min_p_delay_req_interval: 1, mean_link_delay: ti(mld) };
            pa.delay_asymmetry = ti(mld.wrapping_neg().wrapping_add(3));
            let mut pb = pb0;
            pb.port_identity.port_number = 7;
            pb.delay_mechanism = DM::E2E { log_min_delay_req_interval: -3 };
            pb.delay_asymmetry = ti(mld);
            let mut s = base.clone();
            // an E2E port before a P2P port, and after it
            s.port_ds = vec![pb, pa, { let mut c = pb; c.port_identity.port_number = 9; c }, { let mut c = pa; c.port_identity.port_number = 11; c.delay_mechanism = DM::CommonP2P { mean_link_delay: ti(mld) }; c }];
            out.push((format!("ports state {st:?} mean link delay {mld}"), s));
        }
    }
    // booleans of the other data sets
    for (so, pe) in [(false, false), (true, false), (false, true), (true, true)] {
        let mut s = base.clone();
        s.default_ds.slave_only = so;
        s.path_trace_ds.enable = pe;
        out.push((format!("slave_only {so} path_trace_enable {pe}"), s));
    }
    out
}

pub fn run(tier: Tier) -> i32 {
    let mut rep = Reporter::new("C19", tier, "exploration");
    let dir = scratch_dir("c19");
    let obs_path = dir.join("obs.sock");
    let server = ObsServer::start(obs_path.clone());
    let mut exporter = Exporter::start(&dir, &obs_path);
    let mut evals = 0u64;
    let mut failures = 0;
    let mut distinct = std::collections::BTreeSet::new();
    let mut viols: BTreeMap<String, Violation> = BTreeMap::new();
    let mut samples = vec![];
    let reals = real_states(tier);
    // the public BasicFilter behind a real slave port: after a Sync, a complete delay exchange and
    // a second Sync that finds the clock off by theta, the exposed offsetFromMaster is theta and
    // the exposed meanDelay the path delay (symmetric path of 1000 ns; theta up to +-10 s)
    for theta in [0i64, 500_000, -500_000, 900_000_000, 1_500_000_000, -1_500_000_000, 5_000_000_000, -5_000_000_000, 10_000_000_000] {
        use statime::filters::BasicFilter;
        let d: i64 = 1000;
        let got = with_node::<BasicFilter, _>(&NodeSpec::default(), |_| 0.25, |n| {
            let mut a = Peer::gm(1, 1);
            let _ = announce_twice_and_bmca(n, 0, &mut a);
            let own = own_pid(n, 0);
            let t = 50_000_000_000u64;
            // Sync 0 (clock exact), delay exchange, Sync 1 (clock off by theta)
            let _ = event(n, 0, &a.sync(1, true, rc::Ts::default(), 0), time_ns(t + d as u64));
            let _ = general(n, 0, &a.follow_up(1, rc::Ts::from_ns(t as u128), 0));
            let mut acts = delay_timer(n, 0);
            if let Some((ctx, req)) = take_ctx(&mut acts) {
                let seq = rc::decode(&req).map(|m| m.hdr.seq).unwrap_or(0);
                let t3 = t + 1_000_000;
                let _ = collect(n.port(0).handle_send_timestamp(ctx, time_ns(t3)));
                let _ = general(n, 0, &a.delay_resp(seq, rc::Ts::from_ns((t3 + d as u64) as u128), 0, &own));
            }
            let t1 = t + 1_000_000_000;
            let t2 = (t1 as i64 + d + theta) as u64;
            let _ = event(n, 0, &a.sync(2, true, rc::Ts::default(), 0), time_ns(t2));
            let _ = general(n, 0, &a.follow_up(2, rc::Ts::from_ns(t1 as u128), 0));
            let c = (0..n.ports.len()).find_map(|p| n.port_ref(p).port_current_ds_contribution());
            let cur = n.inst.current_ds(c);
            (dur_to_bits(cur.offset_from_master), dur_to_bits(cur.mean_delay))
        });
        let want = ((theta as i128) << 32, (d as i128) << 32);
        if got != want {
            let field = if got.0 != want.0 { "offset_from_master" } else { "mean_delay" };
            viols.entry(format!("getter-differs-from-live-state:current_ds.{field}(BasicFilter)")).or_insert(Violation {
                signature: format!("getter-differs-from-live-state:current_ds.{field}(BasicFilter)"),
                message: format!("BasicFilter slave, last Sync measured an offset of {theta} ns over a {d} ns path: exposed offsetFromMaster {} ns, meanDelay {} ns", got.0 >> 32, got.1 >> 32),
                replay: json!({"state": format!("basic-filter-theta-{theta}")}),
            });
        }
    }
    let mut all: Vec<(String, ObservableInstanceState)> = vec![];
    for (name, o, bad) in &reals {
        for b in bad {
            let field = b.split(':').next().unwrap_or("").to_string();
            viols.entry(format!("getter-differs-from-live-state:{field}")).or_insert(Violation {
                signature: format!("getter-differs-from-live-state:{field}"),
                message: format!("state {name}: {b}"),
                replay: json!({"state": name}),
            });
        }
        all.push((name.clone(), o.clone()));
    }
    let base = reals.iter().find(|r| r.0 == "slave-flags-0x2c").map(|r| r.1.clone()).unwrap();
    all.extend(lattice_states(&base, tier));
    for (name, inst) in &all {
        evals += 1;
        let state = ObservableState { program: program(), instance: inst.clone() };
        let bytes = serde_json::to_vec(&state).unwrap();
        let mut v = |sig: String, msg: String| {
            viols.entry(sig.clone()).or_insert(Violation { signature: sig, message: format!("state {name}: {msg}"), replay: json!({"state": name, "json": String::from_utf8_lossy(&bytes)}) });
        };
        // the JSON hop is lossless
        match serde_json::from_slice::<ObservableState>(&bytes) {
            Ok(back) => {
                let again = serde_json::to_vec(&back).unwrap();
                if again != bytes {
                    v("json-hop-not-lossless".into(), format!("re-serialised JSON differs: {} vs {}", String::from_utf8_lossy(&bytes), String::from_utf8_lossy(&again)));
                }
            }
            Err(e) => v("json-hop-rejected".into(), format!("the exporter-side type cannot read the daemon's JSON: {e}")),
        }
        distinct.insert(bytes.clone());
        server.set(Obs::Bytes(bytes.clone()));
        let resp = match get(&exporter.addr, StdDuration::from_secs(5)) {
            Ok(r) => r,
            Err(e) => {
                if std::env::var("VERIF_DEBUG").is_ok() {
                    eprintln!("state {name}: {e}; exporter alive {}", exporter.alive());
                }
                // never keep talking to a process that failed once; ask a fresh one again with a
                // generous deadline before calling it a verdict (a loaded machine is not one)
                drop(exporter);
                server.set(Obs::CloseEarly);
                exporter = Exporter::start(&dir, &obs_path);
                server.set(Obs::Bytes(bytes.clone()));
                match get(&exporter.addr, StdDuration::from_secs(20)) {
                    Ok(r) => r,
                    Err(e2) => {
                        v("no-http-response".into(), format!("{e}; again on a fresh process: {e2}"));
                        drop(exporter);
                        server.set(Obs::CloseEarly);
                        exporter = Exporter::start(&dir, &obs_path);
                        failures += 1;
                        if failures >= 5 {
                            break;
                        }
                        continue;
                    }
                }
            }
        };
        if resp.status != 200 {
            v(format!("http-status-{}", resp.status), "expected 200".into());
            continue;
        }
        let cl = resp.headers.iter().find(|h| h.0 == "content-length").and_then(|h| h.1.parse::<usize>().ok());
        if cl != Some(resp.body.len()) {
            v("content-length-mismatch".into(), format!("content-length {:?}, body {} bytes", cl, resp.body.len()));
        }
        let Ok(body) = String::from_utf8(resp.body.clone()) else {
            v("body-not-utf8".into(), String::new());
            continue;
        };
        let fams = match parse_exposition(&body) {
            Ok(f) => f,
            Err(e) => {
                v(format!("exposition-malformed:{}", e.split(':').last().unwrap_or("").trim().chars().take(40).collect::<String>()), e);
                continue;
            }
        };
        let exp = expected(&state);
        let mut expected_count: BTreeMap<String, usize> = BTreeMap::new();
        for (name, labels, want) in &exp {
            *expected_count.entry(name.clone()).or_insert(0) += 1;
            match fams.get(name).and_then(|f| f.samples.iter().find(|s| s.0 == *labels)) {
                None => v(format!("metric-missing:{name}"), format!("no sample {name}{labels:?}; family has {:?}", fams.get(name).map(|f| f.samples.iter().map(|s| s.0.clone()).collect::<Vec<_>>()))),
                Some((_, got)) => {
                    if !close(got, *want) {
                        v(format!("metric-value:{name}"), format!("{name}{labels:?} = {got}, the state says {want} under the metric's own help text/unit"));
                    }
                }
            }
        }
        for (name, f) in &fams {
            let want = expected_count.get(name).copied().unwrap_or(0);
            if f.samples.len() != want {
                v(format!("metric-unexpected-samples:{name}"), format!("{} samples, expected {want}", f.samples.len()));
            }
        }
        if samples.len() < 3 && evals % 40 == 1 {
            samples.push(json!({"state": name, "json_bytes": bytes.len(), "http_body_bytes": body.len(), "families": fams.len()}));
        }
    }
    drop(exporter);
    drop(server);
    let _ = std::fs::remove_dir_all(&dir);
    rep.violations(viols.into_values());
    rep.cover("evaluations", json!(evals));
    rep.cover("distinct_nontrivial", json!(distinct.len()));
    rep.cover("rule", json!("instance states from real instances (fresh, grandmaster, slave under all 64 time-property flag combinations, every octet value (quick: boundary values) of each announced grandmaster attribute and of each own attribute, stepsRemoved 0..254, passive, faulty P2P, measured link delay, path traces of 0..128 entries) plus a value lattice on a base state (offset/delay magnitudes around the 2^63/2^64 fixed-point limits, time properties, every port state x mean link delays x E2E/P2P order, booleans), each through getters -> JSON -> unix socket -> the real exporter binary -> HTTP; non-trivial = distinct JSON documents served"));
    rep.cover("samples", json!(samples));
    rep.cover("exhaustive", json!(true));
    rep.assume("expected metric values follow each metric's own HELP text and unit suffix: booleans true = 1, *_nanoseconds in nanoseconds, upcoming_leap = length of the last minute (59/60/61), port_state = IEEE 1588 portState enumeration value");
    rep.assume("the exporter is the repository's own binary, built from the working tree by the check driver");
    rep.finish()
}

pub fn replay(r: &serde_json::Value) {
    println!("state {}: rerun ./check C19 quick (states are re-derived); JSON served: {}", r["state"], r["json"]);
}

#[allow(dead_code)]
fn unused(_: Dbg) {}
