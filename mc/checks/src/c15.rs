//! C15 — boundary clocks propagate TLVs faithfully and break path-trace loops.
//! E3 lattices of TLV type/size/sender/path length and E1 sequences over a real
//! boundary clock whose master ports draw from the daemon's real `TlvForwarder`
//! (and, separately, from minimal providers honouring the contract with `<` and
//! `<=`).  Oracle: a reference forwarding queue per master port.

use rayon::prelude::*;
use serde_json::json;
use simcore::harness::*;
use simcore::refcodec::{self as rc, Body, Pid, Tlv};
use simcore::report::{catch, Reporter, Tier, Violation};
use simcore::scen::Peer;
use simcore::world::*;
use statime::fuzz::FuzzMessage;
use std::collections::VecDeque;

const ANNOUNCE_LEN: usize = 64;
const MAX_LEN: usize = 1024;
const FORWARDER_CAPACITY: usize = 128;

#[derive(Clone, Debug, PartialEq, Eq)]
pub struct QTlv {
    typ: u16,
    value: Vec<u8>,
    sender: Pid,
}

#[derive(Default)]
pub struct TlvSt {
    /// reference queue per port (what the port's provider holds, in arrival order)
    queues: Vec<VecDeque<QTlv>>,
    /// a queue overflowed (the daemon's channel holds 128): only the weaker oracle applies
    lagged: Vec<bool>,
    /// everything ever queued per port (for the weaker oracle)
    all: Vec<Vec<QTlv>>,
    /// already emitted per port (indices into `all`)
    emitted: Vec<Vec<usize>>,
    /// path received from the parent (what pathTraceDS.list must hold)
    path: Vec<[u8; 8]>,
    /// key of the state before a frame that must have no effect
    expect_no_effect: Option<String>,
    init: bool,
}

pub struct TlvMon;

fn accepts(run: &Run<'_>, port: usize, m: &rc::Msg) -> bool {
    // statime's `register_announce_message`: not the port's own identity, on the acceptable master list
    let own = run.own_pid(port);
    if m.hdr.source == own {
        return false;
    }
    run.cfg.node.ports[port].aml.accepts(m.hdr.source.clock)
}

fn well_formed_for_statime(bytes: &[u8]) -> Option<rc::Msg> {
    let m = rc::decode(bytes).ok()?;
    if m.hdr.version != 2 {
        return None;
    }
    // documented choice: odd TLV lengths make the whole frame invalid
    if m.tlvs.iter().any(|t| t.value.len() % 2 == 1) {
        return None;
    }
    Some(m)
}

impl Monitor for TlvMon {
    type St = TlvSt;

    fn pre(&self, st: &mut TlvSt, run: &mut Run<'_>, ev: &Ev, _judged: bool) {
        let n = run.n_ports();
        if !st.init {
            st.init = true;
            st.queues = vec![VecDeque::new(); n];
            st.lagged = vec![false; n];
            st.all = vec![vec![]; n];
            st.emitted = vec![vec![]; n];
        }
        st.expect_no_effect = None;
        let (p, bytes) = match ev {
            Ev::Raw(p, h, false) => (*p, unhex(h)),
            Ev::Ann(p, k) => (*p, rc::encode(&run.peers[*k].announce_msg(run.peers[*k].announce_seq))),
            _ => return,
        };
        if bytes.len() > 2048 {
            return;
        }
        let Some(m) = well_formed_for_statime(&bytes) else { return };
        if m.hdr.domain != run.cfg.node.domain || m.hdr.sdo() != run.cfg.node.sdo {
            return;
        }
        if !matches!(m.body, Body::Announce(_)) {
            return;
        }
        let pd = run.node.inst.parent_ds().parent_port_identity;
        let parent = Pid { clock: pd.clock_identity.0, port: pd.port_number };
        let from_parent = matches!(run.node.port_ref(p).port_ds().port_state, PS::Slave) && m.hdr.source == parent;
        let own_id = run.cfg.node.identity;
        let path_tlv = m.tlvs.iter().find(|t| t.typ == rc::TLV_PATH_TRACE);
        if from_parent && run.cfg.node.path_trace {
            if let Some(t) = path_tlv {
                let entries: Vec<[u8; 8]> = t.value.chunks_exact(8).map(|c| c.try_into().unwrap()).collect();
                if entries.iter().any(|e| *e == own_id) {
                    // a looped Announce is discarded: nothing may change
                    st.expect_no_effect = Some(run.key());
                    return;
                }
                st.path = entries.into_iter().take(128).collect();
            }
        }
        if !accepts(run, p, &m) {
            return;
        }
        for t in &m.tlvs {
            if rc::propagating_type(t.typ) {
                // never forwardable: larger than the room an empty Announce has
                if t.wire_len() > MAX_LEN - ANNOUNCE_LEN {
                    continue;
                }
                let q = QTlv { typ: t.typ, value: t.value.clone(), sender: m.hdr.source.clone() };
                for port in 0..n {
                    st.all[port].push(q.clone());
                    st.queues[port].push_back(q.clone());
                    if run.cfg.provider_daemon && st.queues[port].len() > FORWARDER_CAPACITY {
                        st.lagged[port] = true;
                    }
                }
            }
        }
    }

    fn post(&self, st: &mut TlvSt, run: &mut Run<'_>, s: &Step, report: Option<&mut Vec<Violation>>) {
        if s.panic.is_some() {
            return;
        }
        let mut local = vec![];
        if let Some(before) = st.expect_no_effect.take() {
            let acts: usize = s.acts.iter().map(|(_, a)| a.len()).sum();
            if acts != 0 || before != run.key() {
                local.push(Violation {
                    signature: "looped-announce-has-effect".into(),
                    message: format!(
                        "an Announce from the parent whose path trace contains the instance's own identity was not discarded cleanly: {} action(s), state {}",
                        acts,
                        if before != run.key() { "changed" } else { "unchanged" }
                    ),
                    replay: json!(null),
                });
            }
        }
        // pathTraceDS follows the parent's path
        if run.cfg.node.path_trace {
            let got: Vec<[u8; 8]> = run.node.inst.path_trace_ds().list.iter().map(|c| c.0).collect();
            let is_slave = s.after.iter().any(|x| matches!(x, PS::Slave));
            if is_slave && got != st.path && !matches!(s.ev, Ev::Bmca) {
                local.push(Violation {
                    signature: "path-trace-ds-differs-from-received-path".into(),
                    message: format!("pathTraceDS holds {} entries, the parent's last path has {}", got.len(), st.path.len()),
                    replay: json!(null),
                });
            }
            if !is_slave && matches!(s.ev, Ev::Bmca) && !s.after.iter().any(|x| matches!(x, PS::Master)) {
                // neither slave nor master (a slave-only instance that lost its parent): nothing
                // is announced and no parent delivers a path; whatever a later parent sends
                // replaces the list, so the reference follows the data set here
                st.path = got.clone();
            }
            if !is_slave && matches!(s.ev, Ev::Bmca) && s.after.iter().any(|x| matches!(x, PS::Master)) {
                st.path.clear();
                // the instance is grandmaster now: its path is its own identity alone
                if !got.is_empty() {
                    local.push(Violation {
                        signature: "path-trace-ds-not-cleared-when-grandmaster".into(),
                        message: format!("no port is slave after the BMCA run but pathTraceDS still holds {} entries of the lost parent", got.len()),
                        replay: json!(null),
                    });
                }
            }
        }
        if let Ev::T(q, Timer::Announce) = s.ev {
            if matches!(s.before[q], PS::Master) {
                let frames: Vec<&ActInfo> = s.acts.iter().flat_map(|(_, a)| a.iter()).filter(|a| a.frame.is_some()).collect();
                if frames.len() != 1 {
                    local.push(Violation {
                        signature: "announce-not-sent".into(),
                        message: format!("a master port's announce timer produced {} frames (reference queue {:?})", frames.len(), st.queues[q].iter().map(|t| (t.typ, t.value.len())).collect::<Vec<_>>()),
                        replay: json!(null),
                    });
                } else {
                    let bytes = frames[0].frame.as_ref().unwrap();
                    if bytes.len() > MAX_LEN {
                        local.push(Violation { signature: "announce-exceeds-maximum-size".into(), message: format!("{} bytes", bytes.len()), replay: json!(null) });
                    }
                    match catch(|| FuzzMessage::deserialize(bytes).is_ok()) {
                        Ok(true) => {}
                        _ => local.push(Violation {
                            signature: "announce-undecodable-by-own-parser".into(),
                            message: format!("{}", hex(bytes)),
                            replay: json!(null),
                        }),
                    }
                    match rc::decode(bytes) {
                        Err(e) => local.push(Violation { signature: "announce-undecodable-by-reference".into(), message: format!("{e:?}"), replay: json!(null) }),
                        Ok(m) => {
                            let pd = run.node.inst.parent_ds().parent_port_identity;
                            let parent = Pid { clock: pd.clock_identity.0, port: pd.port_number };
                            let mut margin = MAX_LEN - ANNOUNCE_LEN;
                            let mut want: Vec<Tlv> = vec![];
                            if run.cfg.node.path_trace {
                                let cur: Vec<[u8; 8]> = run.node.inst.path_trace_ds().list.iter().map(|c| c.0).collect();
                                if cur.len() < 128 {
                                    let mut v = vec![];
                                    for e in &cur {
                                        v.extend_from_slice(e);
                                    }
                                    v.extend_from_slice(&run.cfg.node.identity);
                                    let size = 4 + v.len();
                                    if margin > size {
                                        margin -= size;
                                        want.push(Tlv { typ: rc::TLV_PATH_TRACE, value: v });
                                    }
                                }
                            }
                            if !st.lagged[q] {
                                // the longest prefix of the queue that fits, minus TLVs of non-parents
                                // and (with path trace on) received PATH_TRACE TLVs
                                loop {
                                    let Some(head) = st.queues[q].front() else { break };
                                    let size = 4 + head.value.len();
                                    let fits = if run.cfg.provider_strict && !run.cfg.provider_daemon { size < margin } else { size <= margin };
                                    if !fits {
                                        break;
                                    }
                                    let head = st.queues[q].pop_front().unwrap();
                                    if head.sender != parent {
                                        continue;
                                    }
                                    if run.cfg.node.path_trace && head.typ == rc::TLV_PATH_TRACE {
                                        continue;
                                    }
                                    margin -= size;
                                    want.push(Tlv { typ: head.typ, value: head.value });
                                }
                                if m.tlvs != want {
                                    let class = if m.tlvs.len() < want.len() {
                                        "missing"
                                    } else if m.tlvs.len() > want.len() {
                                        "extra"
                                    } else {
                                        "different"
                                    };
                                    local.push(Violation {
                                        signature: format!("forwarded-tlvs-{class}"),
                                        message: format!(
                                            "port {} announced TLVs {:?}, the reference queue prescribes {:?}",
                                            q + 1,
                                            m.tlvs.iter().map(|t| (t.typ, t.value.len())).collect::<Vec<_>>(),
                                            want.iter().map(|t| (t.typ, t.value.len())).collect::<Vec<_>>()
                                        ),
                                        replay: json!(null),
                                    });
                                }
                            } else {
                                // overflow: in-order, duplicate-free subsequence of what was queued
                                let own_path = if run.cfg.node.path_trace { want.len() } else { 0 };
                                let mut pos = st.emitted[q].last().map(|x| x + 1).unwrap_or(0);
                                // ... and not nothing: the channel still holds the newest arrivals, and the
                                // oldest of them that this port has not sent goes out if it fits
                                if m.tlvs.len() <= own_path && st.all[q].len() > pos {
                                    let oldest_held = pos.max(st.all[q].len().saturating_sub(128));
                                    if 4 + st.all[q][oldest_held].value.len() <= margin {
                                        local.push(Violation {
                                            signature: "forwarded-tlvs-missing-after-overflow".into(),
                                            message: format!("the forwarder lagged: {} TLVs arrived since this port last sent one, the Announce has room for the oldest one still held ({} bytes) and carries none", st.all[q].len() - pos, 4 + st.all[q][oldest_held].value.len()),
                                            replay: json!(null),
                                        });
                                    }
                                }
                                for t in m.tlvs.iter().skip(own_path) {
                                    let found = (pos..st.all[q].len()).find(|&i| st.all[q][i].typ == t.typ && st.all[q][i].value == t.value);
                                    match found {
                                        Some(i) => {
                                            st.emitted[q].push(i);
                                            pos = i + 1;
                                        }
                                        None => {
                                            local.push(Violation {
                                                signature: "forwarded-tlv-out-of-order-or-duplicate".into(),
                                                message: format!("TLV ({:#x}, {} bytes) is not a later element of the arrival sequence", t.typ, t.value.len()),
                                                replay: json!(null),
                                            });
                                            break;
                                        }
                                    }
                                }
                                st.queues[q].clear();
                            }
                        }
                    }
                }
            }
        }
        if let Some(out) = report {
            out.extend(local);
        }
    }

    fn key(&self, st: &TlvSt) -> String {
        format!("{:?}{:?}{}", st.queues.iter().map(|q| q.iter().map(|t| (t.typ, t.value.len(), t.sender.clock[7])).collect::<Vec<_>>()).collect::<Vec<_>>(), st.lagged, st.path.len())
    }
}

static MON: TlvMon = TlvMon;

#[derive(Clone, Copy, PartialEq, Debug)]
pub enum Prov {
    Daemon,
    Lenient,
    Strict,
}

pub fn world(n_ports: usize, path_trace: bool, prov: Prov, aml: bool) -> WorldSys<'static, TlvMon> {
    let mut node = NodeSpec::default();
    node.path_trace = path_trace;
    let parent = Peer::gm(1, 1);
    let other = Peer::gm(2, 2);
    let unacceptable = Peer::gm(9, 0);
    node.ports = (0..n_ports)
        .map(|_| PortSpec {
            aml: if aml { Some(vec![statime::config::ClockIdentity(parent.pid.clock), statime::config::ClockIdentity(other.pid.clock)]) } else { None },
            ..Default::default()
        })
        .collect();
    let mut cfg = WorldCfg {
        node,
        provider_daemon: prov == Prov::Daemon,
        provider_strict: prov == Prov::Strict,
        share_seq_by_identity: true,
        ..Default::default()
    };
    cfg.peers = vec![parent, other, unacceptable];
    let mut seed = vec![Ev::Ann(0, 0), Ev::Ann(0, 0)];
    for q in 1..n_ports {
        seed.push(Ev::T(q, Timer::Receipt));
    }
    seed.push(Ev::Bmca);
    WorldSys {
        property: "C15",
        name: format!("bc-{n_ports}p-{}-{:?}{}", if path_trace { "pathtrace" } else { "plain" }, prov, if aml { "-aml" } else { "" }),
        cfg,
        seed,
        alphabet: vec![],
        obedient: false,
        monitor: &MON,
        macros: vec![],
    }
}

pub fn ann_with(peer: &Peer, seq: u16, tlvs: Vec<Tlv>) -> Ev {
    Ev::Raw(0, hex(&rc::encode(&peer.announce_msg(seq).with_tlvs(tlvs))), false)
}

fn path_tlv(entries: &[[u8; 8]]) -> Tlv {
    let mut v = vec![];
    for e in entries {
        v.extend_from_slice(e);
    }
    Tlv { typ: rc::TLV_PATH_TRACE, value: v }
}

pub fn tann_all(n_ports: usize, times: usize) -> Vec<Ev> {
    let mut v = vec![];
    for _ in 0..times {
        for q in 1..n_ports {
            v.push(Ev::T(q, Timer::Announce));
        }
    }
    v
}

struct Acc {
    evals: u64,
    nontrivial: u64,
    viols: std::collections::BTreeMap<String, Violation>,
    per: std::collections::BTreeMap<String, u64>,
}

fn run_hists(acc: &mut Acc, sys: &WorldSys<'static, TlvMon>, scenario: &str, hists: Vec<Vec<Ev>>) {
    let res: Vec<(Vec<Violation>, bool)> = hists
        .par_iter()
        .map(|h| {
            let o = sys.run_all_judged(h);
            let nontrivial = !o.dead;
            let mut v = o.violations;
            for x in &mut v {
                x.replay = json!({"world": sys.name, "seed": sys.seed, "hist": h});
                x.signature = format!("{}", x.signature);
            }
            (v, nontrivial)
        })
        .collect();
    *acc.per.entry(format!("{scenario}@{}", sys.name)).or_insert(0) += res.len() as u64;
    for (v, nt) in res {
        acc.evals += 1;
        if nt {
            acc.nontrivial += 1;
        }
        for x in v {
            acc.viols.entry(x.signature.clone()).or_insert(x);
        }
    }
}

pub fn worlds(tier: Tier) -> Vec<WorldSys<'static, TlvMon>> {
    let mut v = vec![
        world(2, false, Prov::Daemon, false),
        world(2, true, Prov::Daemon, false),
        world(3, false, Prov::Daemon, true),
        world(2, false, Prov::Lenient, false),
        world(2, false, Prov::Strict, false),
    ];
    // a slave-only instance with path trace on (one and two ports)
    for n in [1usize, 2] {
        let mut w = world(n.max(2), true, Prov::Daemon, false);
        if n == 1 {
            w.cfg.node.ports.truncate(1);
            w.seed.retain(|e| !matches!(e, Ev::T(1, _)));
        }
        w.cfg.node.slave_only = true;
        w.name = format!("{}-slaveonly-{n}p", w.name);
        v.push(w);
    }
    if tier == Tier::Thorough {
        v.push(world(3, true, Prov::Daemon, false));
        v.push(world(4, false, Prov::Daemon, false));
        v.push(world(2, true, Prov::Strict, true));
        v.push(world(2, true, Prov::Lenient, false));
    }
    v
}

pub fn run(tier: Tier) -> i32 {
    let mut rep = Reporter::new("C15", tier, "exploration");
    let mut acc = Acc { evals: 0, nontrivial: 0, viols: Default::default(), per: Default::default() };
    let types: [u16; 12] = [0x0008, 0x0009, 0x4000, 0x4001, 0x7fff, 0x2004, 0x0001, 0x0003, 0x8000, 0x8001, 0x0000, 0x3fff];
    for sys in worlds(tier) {
        let n = sys.cfg.node.ports.len();
        let parent = sys.cfg.peers[0].clone();
        let other = sys.cfg.peers[1].clone();
        let unacc = sys.cfg.peers[2].clone();
        // another port of the parent's clock (same clockIdentity, other portNumber): not the parent port
        let mut sibling = parent.clone();
        sibling.pid.port = 2;
        // S1: one TLV: type x every even value length 0..1100 x sender
        let mut hists = vec![];
        let lens: Vec<usize> = if tier == Tier::Thorough || sys.name.contains("Daemon") { (0..=1100).step_by(2).collect() } else { (0..=1100).step_by(22).chain([950, 952, 954, 956, 958, 960]).collect() };
        for &ty in &types {
            for &l in &lens {
                for (si, sender) in [&parent, &other, &unacc, &sibling].iter().enumerate() {
                    if si > 0 && l % 50 != 0 && !(940..=964).contains(&l) {
                        continue;
                    }
                    let mut h = vec![ann_with(sender, 500, vec![Tlv { typ: ty, value: vec![0x5a; l] }])];
                    h.extend(tann_all(n, 2));
                    hists.push(h);
                }
            }
        }
        run_hists(&mut acc, &sys, "single-tlv", hists);
        // S2: two TLVs around the room left (in one Announce and in two)
        let room = MAX_LEN - ANNOUNCE_LEN - if sys.cfg.node.path_trace { 12 } else { 0 };
        let sizes: Vec<usize> = vec![4, 6, room / 2 - 2, room / 2, room / 2 + 2, room - 6, room - 4, room - 2, room, room + 2, 1100];
        let mut hists = vec![];
        for &a in &sizes {
            for &b in &sizes {
                for ty in [(0x4000u16, 0x4001u16), (0x0009, 0x7fff), (0x4000, 0x8001), (0x8000, 0x4000)] {
                    let ta = Tlv { typ: ty.0, value: vec![0xa1; a - 4] };
                    let tb = Tlv { typ: ty.1, value: vec![0xb2; b - 4] };
                    if ANNOUNCE_LEN + a + b <= 2048 {
                        let mut h = vec![ann_with(&parent, 500, vec![ta.clone(), tb.clone()])];
                        h.extend(tann_all(n, 3));
                        hists.push(h);
                    }
                    let mut h = vec![ann_with(&parent, 500, vec![ta.clone()]), ann_with(&parent, 501, vec![tb.clone()])];
                    h.extend(tann_all(n, 3));
                    hists.push(h);
                    // an announce between the two arrivals
                    let mut h = vec![ann_with(&parent, 500, vec![ta])];
                    h.extend(tann_all(n, 1));
                    h.push(ann_with(&parent, 501, vec![tb]));
                    h.extend(tann_all(n, 2));
                    hists.push(h);
                }
            }
        }
        run_hists(&mut acc, &sys, "two-tlvs", hists);
        // S3: all sequences to depth d over a small alphabet (arrivals, announce timers, parent switch)
        let small = Tlv { typ: 0x4000, value: vec![1; 10] };
        let half = Tlv { typ: 0x4001, value: vec![2; room / 2 - 2] };
        let full = Tlv { typ: 0x7fff, value: vec![3; room - 4] };
        let huge = Tlv { typ: 0x4000, value: vec![4; 1096] };
        let mut alphabet: Vec<Vec<Ev>> = vec![];
        // sequence ids are filled in when a history is built
        let kinds: Vec<(&Peer, Vec<Tlv>)> = vec![
            (&parent, vec![small.clone()]),
            (&parent, vec![half.clone()]),
            (&parent, vec![full.clone()]),
            (&parent, vec![huge.clone()]),
            (&parent, vec![Tlv { typ: 0x8001, value: vec![5; 6] }, small.clone()]),
            (&other, vec![small.clone()]),
            (&parent, vec![Tlv { typ: 0x4000, value: vec![] }]),
            (&sibling, vec![Tlv { typ: 0x4001, value: vec![6; 8] }]),
        ];
        for q in 1..n {
            alphabet.push(vec![Ev::T(q, Timer::Announce)]);
        }
        // parent switch: the other master becomes better and takes over
        let depth = tier.pick(4, 6);
        let n_sym = kinds.len() + alphabet.len() + 1;
        let mut hists = vec![];
        let total = (n_sym as u64).pow(depth as u32);
        for code in 0..total {
            let mut c = code;
            let mut h = vec![];
            let mut seq = 500u16;
            let mut oseq = 700u16;
            for _ in 0..depth {
                let s = (c % n_sym as u64) as usize;
                c /= n_sym as u64;
                if s < kinds.len() {
                    let (peer, tlvs) = &kinds[s];
                    if std::ptr::eq(*peer, &other) {
                        h.push(ann_with(peer, oseq, tlvs.clone()));
                        oseq += 1;
                    } else {
                        h.push(ann_with(peer, seq, tlvs.clone()));
                        seq += 1;
                    }
                } else if s < kinds.len() + alphabet.len() {
                    h.extend(alphabet[s - kinds.len()].clone());
                } else {
                    // parent switch: `other` announces better data twice, BMCA
                    let mut better = other.clone();
                    better.priority1 = 0;
                    h.push(ann_with(&better, oseq, vec![]));
                    h.push(ann_with(&better, oseq + 1, vec![small.clone()]));
                    oseq += 2;
                    h.push(Ev::Bmca);
                }
            }
            h.extend(tann_all(n, 2));
            hists.push(h);
        }
        run_hists(&mut acc, &sys, "sequences", hists);
        // S4: forwarder lag/overflow: 130 Announces each carrying a TLV, no announce timer in between
        let mut h = vec![];
        for i in 0..130u16 {
            h.push(ann_with(&parent, 500 + i, vec![Tlv { typ: 0x4000, value: vec![(i & 0xff) as u8; 2 + 2 * (i as usize % 5)] }]));
        }
        h.extend(tann_all(n, 4));
        run_hists(&mut acc, &sys, "overflow", vec![h]);
        // S5: path trace: received path lengths 0..200, loops at several positions
        if sys.cfg.node.path_trace {
            let mut hists = vec![];
            let own = sys.cfg.node.identity;
            let lens: Vec<usize> = if tier == Tier::Thorough { (0..=200).collect() } else { (0..=200).step_by(7).chain([1, 2, 117, 118, 119, 120, 126, 127, 128, 129, 130]).collect() };
            for &l in &lens {
                let entries: Vec<[u8; 8]> = (0..l).map(|i| [0xbb, 0, 0, 0, 0, 0, (i >> 8) as u8, i as u8]).collect();
                let mut h = vec![ann_with(&parent, 500, vec![path_tlv(&entries)])];
                h.extend(tann_all(n, 1));
                // a second, shorter path afterwards
                h.push(ann_with(&parent, 501, vec![path_tlv(&entries[..l / 2])]));
                h.extend(tann_all(n, 1));
                hists.push(h);
                // a path of the same length with other content (a grandmaster change at equal depth)
                if l > 0 {
                    let mut other_path = entries.clone();
                    other_path[0] = [0xcc, 0, 0, 0, 0, 0, 0, 1];
                    if l > 2 {
                        other_path[l / 2] = [0xcc, 0, 0, 0, 0, 0, 0, 2];
                    }
                    let mut h = vec![ann_with(&parent, 500, vec![path_tlv(&entries)])];
                    h.extend(tann_all(n, 1));
                    h.push(ann_with(&parent, 501, vec![path_tlv(&other_path)]));
                    h.extend(tann_all(n, 1));
                    h.push(ann_with(&parent, 502, vec![path_tlv(&entries)]));
                    h.extend(tann_all(n, 1));
                    hists.push(h);
                }
                // a loop: own identity at position k
                for k in [0usize, 1, l / 2, l.saturating_sub(1)] {
                    if k < l {
                        let mut e2 = entries.clone();
                        e2[k] = own;
                        // the looped Announce carries changed contents, so that applying it is visible
                        let mut changed = parent.clone();
                        changed.priority2 = 77;
                        changed.steps_removed = 9;
                        changed.time_source = 0x10;
                        let mut h = vec![ann_with(&parent, 500, vec![path_tlv(&entries[..l.min(3)])]), ann_with(&changed, 501, vec![path_tlv(&e2), Tlv { typ: 0x4000, value: vec![7; 8] }])];
                        h.extend(tann_all(n, 1));
                        hists.push(h);
                    }
                }
                // path trace plus forwarded TLVs filling the rest
                if l < 100 {
                    let room = MAX_LEN - ANNOUNCE_LEN - (4 + 8 * (l + 1));
                    for d in [-2i32, 0, 2] {
                        let sz = room as i32 + d;
                        if sz >= 4 {
                            let mut h = vec![ann_with(&parent, 500, vec![path_tlv(&entries), Tlv { typ: 0x4000, value: vec![9; sz as usize - 4] }])];
                            h.extend(tann_all(n, 2));
                            hists.push(h);
                        }
                    }
                }
            }
            run_hists(&mut acc, &sys, "path-trace", hists);
            // S6: losing the parent: every sequence of BMCA runs, the slave port's receipt timeout,
            // announce timers and further parent Announces after a path of two was learnt
            let two: Vec<[u8; 8]> = (0..2).map(|i| [0xbb, 0, 0, 0, 0, 0, 0, i as u8]).collect();
            let depth = tier.pick(5, 7);
            let mut hists = vec![];
            for code in 0..4usize.pow(depth as u32) {
                let mut h = vec![ann_with(&parent, 500, vec![path_tlv(&two)])];
                let mut c = code;
                let mut seq = 501;
                for _ in 0..depth {
                    match c % 4 {
                        0 => h.push(Ev::Bmca),
                        1 => h.push(Ev::T(0, Timer::Receipt)),
                        2 => h.extend(tann_all(n, 1)),
                        _ => {
                            h.push(ann_with(&parent, seq, vec![path_tlv(&two[..1])]));
                            seq += 1;
                        }
                    }
                    c /= 4;
                }
                h.extend(tann_all(n, 1));
                hists.push(h);
            }
            run_hists(&mut acc, &sys, "path-trace-parent-loss", hists);
        }
    }
    rep.violations(acc.viols.into_values());
    rep.cover("evaluations", json!(acc.evals));
    rep.cover("distinct_nontrivial", json!(acc.nontrivial));
    rep.cover("per_scenario", json!(acc.per));
    rep.cover("rule", json!("histories over a real boundary clock (slave port + 1-3 master ports) fed with Announces carrying TLVs: every type class x every even value length 0..1100 x sender class; pairs of sizes around the room left; all sequences to depth d of arrivals/announce timers/parent switch; 130-Announce overflow; path lengths 0..200 with loops; all sequences to depth 5|7 of BMCA / receipt timeout / announce timers / parent Announces after a path was learnt; each with the daemon's real TlvForwarder and with minimal providers (< and <=); non-trivial = executions that ran to completion (no panic), each judging every emitted Announce against the reference queue"));
    rep.cover("exhaustive", json!(true));
    rep.cover("samples", json!([{"world": "bc-2p-plain-Daemon", "history": "Announce(parent, TLV 0x4000 len 956) ; announce timer x2"}, {"world": "bc-2p-pathtrace-Daemon", "history": "Announce(parent, PATH_TRACE 128 entries) ; announce timer"}]));
    rep.assume("the main.rs glue (ForwardTLV action -> TlvForwarder::forward, one duplicate() per port) is represented by the harness host written to the PortAction documentation; ethernet_port_task's call to tlv_forwarder.empty() is not executed");
    rep.assume("a TLV larger than the room of an empty Announce (960 octets) can never be forwarded and is not expected to be");
    rep.finish()
}

pub fn replay(r: &serde_json::Value) {
    let systems = worlds(Tier::Thorough);
    let name = r["world"].as_str().unwrap_or("");
    let sys = systems.iter().find(|s| s.name == name).expect("world");
    let hist: Vec<Ev> = serde_json::from_value(r["hist"].clone()).unwrap();
    let o = sys.run_all_judged(&hist);
    println!("{} events, dead={}", hist.len(), o.dead);
    for v in o.violations {
        println!("VIOLATION {} :: {}", v.signature, v.message);
    }
}
