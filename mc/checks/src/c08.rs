//! C08 — ports act only within their role; at most one port steers the clock.
//! E1 over `World`: all event sequences to a depth bound for 1-3-port instances
//! in several role configurations, with the real Kalman filter behind the ports.

use serde_json::json;
use simcore::harness::*;
use simcore::refcodec::{self as rc, Body};
use simcore::report::{Reporter, Tier, Violation};
use simcore::scen::{state_name, Peer};
use simcore::world::*;

pub struct RoleMon;

#[derive(Default)]
pub struct RoleSt {
    /// Some(bmca completed since) once SlaveOnly(true) was applied
    so_on: Option<bool>,
    /// slave-only was switched off at some point
    so_off_seen: bool,
}

fn v(sig: &str, msg: String) -> Violation {
    Violation { signature: sig.to_string(), message: msg, replay: json!(null) }
}

impl Monitor for RoleMon {
    type St = RoleSt;
    fn post(&self, st: &mut RoleSt, run: &mut Run<'_>, s: &Step, report: Option<&mut Vec<Violation>>) {
        // bookkeeping on every step
        match s.ev {
            Ev::SlaveOnly(true) => st.so_on = Some(false),
            Ev::SlaveOnly(false) => {
                st.so_on = None;
                st.so_off_seen = true;
            }
            Ev::Bmca => {
                if let Some(b) = &mut st.so_on {
                    *b = true;
                }
            }
            _ => {}
        }
        let Some(out) = report else { return };
        if s.panic.is_some() {
            return; // C03's business
        }
        let names: Vec<&str> = s.after.iter().map(|x| state_name(*x)).collect();
        // I1: at most one slave port / one steering port
        let steering = (0..run.n_ports()).filter(|&p| run.node.port_ref(p).is_steering()).count();
        let slaves = s.after.iter().filter(|x| matches!(x, PS::Slave)).count();
        if steering > 1 || slaves > 1 {
            out.push(v("two-slave-ports", format!("{slaves} ports in slave state ({names:?}), {steering} steering")));
        }
        // I2: only the slave port issues clock commands
        for (tag, cmd, _ok) in &s.clock_cmds {
            let p = (*tag - 1) as usize;
            let allowed = matches!(s.before[p], PS::Slave) || matches!(s.after[p], PS::Slave);
            if !allowed {
                out.push(v(
                    &format!("clock-command-by-{}-port", state_name(s.before[p]).to_lowercase()),
                    format!("port {} ({} -> {}) issued {:?}", tag, state_name(s.before[p]), state_name(s.after[p]), cmd),
                ));
            }
        }
        // I3: master-only port never slave
        for p in 0..run.n_ports() {
            if run.cfg.node.ports[p].master_only && matches!(s.after[p], PS::Slave) {
                out.push(v("master-only-port-is-slave", format!("port {} is master-only and slave", p + 1)));
            }
        }
        // I4: slave-only from the start: never a master port
        if run.cfg.node.slave_only && !st.so_off_seen && s.after.iter().any(|x| matches!(x, PS::Master)) {
            out.push(v("slave-only-instance-has-master-port", format!("states {names:?}")));
        }
        // I5: after slave-only was switched on and a BMCA run completed: no master port
        if st.so_on == Some(true) && s.after.iter().any(|x| matches!(x, PS::Master)) {
            out.push(v("master-port-after-slave-only-and-bmca", format!("states {names:?} after {:?}", s.ev)));
        }
        // I6: frame types by role (state at the start of the call)
        for (p, acts) in &s.acts {
            for a in acts {
                let Some(Ok(m)) = &a.decoded else { continue };
                let need = match m.body {
                    Body::Announce(_) | Body::Sync { .. } | Body::FollowUp { .. } | Body::DelayResp { .. } => Some(PS::Master),
                    Body::DelayReq { .. } => Some(PS::Slave),
                    _ => None,
                };
                if let Some(need) = need {
                    if s.before[*p] != need {
                        out.push(v(
                            &format!("{}-from-{}-port", rc::type_name(m.hdr.msg_type), state_name(s.before[*p]).to_lowercase()),
                            format!("port {} in state {} emitted {}", p + 1, state_name(s.before[*p]), rc::type_name(m.hdr.msg_type)),
                        ));
                    }
                }
            }
        }
    }
}

pub fn own_clock_peer(spec: &NodeSpec, port_number: u16) -> Peer {
    // "another port of ourselves": same clock identity, announces our own attributes
    let mut p = Peer::gm(0, spec.priority_1);
    p.pid = rc::Pid { clock: spec.identity, port: port_number };
    p.gm_identity = spec.identity;
    p.class = spec.class;
    p.accuracy = spec.accuracy;
    p.variance = spec.variance;
    p.priority2 = spec.priority_2;
    p
}

pub fn port_alphabet(a: Alpha, p: usize, p2p: bool, rich: bool) -> Alpha {
    let mut a = a
        .timers(p, &TIMERS)
        .add(Ev::TxTs(p))
        .add(Ev::Ann(p, 0))
        .add(Ev::Ann(p, 1))
        .add(Ev::Ann(p, 2))
        .add(Ev::Sync(p, 0, true))
        .add(Ev::Fup(p, 0))
        .add(Ev::DelayReq(p, 1));
    if rich {
        a = a.add(Ev::Sync(p, 0, false)).add(Ev::DelayResp(p, 0, true, true)).add(Ev::Sync(p, 1, false));
    }
    if p2p {
        a = a.add(Ev::PdelayResp(p, 0, false, true)).add(Ev::PdelayResp(p, 1, false, true)).add(Ev::PdelayReq(p, 1));
    }
    a
}

pub fn global_alphabet(a: Alpha) -> Alpha {
    a.add(Ev::Bmca).add(Ev::SlaveOnly(true)).add(Ev::SlaveOnly(false)).add(Ev::Quality(0)).add(Ev::Quality(1))
}

pub struct WorldDef {
    pub name: &'static str,
    pub ports: Vec<(bool, bool)>, // (p2p, master_only)
    pub slave_only: bool,
    pub seed: Vec<Ev>,
    pub obedient: bool,
    pub rich: bool,
    pub depth: (usize, usize),
}

pub fn world_defs() -> Vec<WorldDef> {
    let slave_seed = vec![Ev::Ann(0, 0), Ev::Ann(0, 0), Ev::Bmca];
    vec![
        WorldDef { name: "1p-e2e-anyhost", ports: vec![(false, false)], slave_only: false, seed: vec![], obedient: false, rich: true, depth: (6, 7) },
        WorldDef { name: "1p-e2e-slave-seed", ports: vec![(false, false)], slave_only: false, seed: slave_seed.clone(), obedient: false, rich: true, depth: (5, 7) },
        WorldDef { name: "1p-p2p-anyhost", ports: vec![(true, false)], slave_only: false, seed: vec![], obedient: false, rich: false, depth: (6, 7) },
        WorldDef { name: "1p-e2e-slaveonly", ports: vec![(false, false)], slave_only: true, seed: vec![], obedient: false, rich: false, depth: (6, 8) },
        WorldDef { name: "2p-e2e-obedient", ports: vec![(false, false), (false, false)], slave_only: false, seed: vec![], obedient: true, rich: false, depth: (6, 7) },
        WorldDef { name: "2p-bc-seed", ports: vec![(false, false), (false, false)], slave_only: false, seed: vec![Ev::Ann(0, 0), Ev::Ann(0, 0), Ev::T(1, Timer::Receipt), Ev::Bmca], obedient: false, rich: false, depth: (4, 6) },
        WorldDef { name: "2p-p2p+masteronly", ports: vec![(true, false), (false, true)], slave_only: false, seed: vec![], obedient: false, rich: false, depth: (4, 6) },
        WorldDef { name: "2p-slaveonly", ports: vec![(false, false), (false, false)], slave_only: true, seed: vec![], obedient: false, rich: false, depth: (5, 6) },
        // B (priority1 100) is better than the instance too: slave of B first, then the better A appears
        WorldDef { name: "1p-e2e-two-better-masters", ports: vec![(false, false)], slave_only: false, seed: vec![Ev::Ann(0, 1), Ev::Ann(0, 1), Ev::Bmca], obedient: false, rich: false, depth: (5, 6) },
        // both ports on one segment: every Announce of A or B reaches both ports as the same frame
        WorldDef { name: "2p-shared-segment", ports: vec![(false, false), (false, false)], slave_only: false, seed: vec![], obedient: false, rich: false, depth: (5, 6) },
        WorldDef { name: "3p-mixed", ports: vec![(false, false), (true, false), (false, true)], slave_only: false, seed: slave_seed, obedient: true, rich: false, depth: (4, 5) },
    ]
}

/// Configuration sweep: port layouts x every subset of {per-port acceptable-master lists, path
/// trace, unequal intervals, non-zero domain/sdoId, a second better master, peers that are boundary clocks with every attribute distinct} x {fresh, slave of A},
/// explored to a shallow depth.  `reduced` keeps the single tokens and the full set only.
pub fn sweep_defs(reduced: bool) -> Vec<WorldDef> {
    const TOKENS: [&str; 6] = ["+aml", "+pt", "+iv", "+sdo", "+b100", "+bcpeers"];
    let mut out = vec![];
    let layouts: [(&str, Vec<(bool, bool)>); 4] = [
        ("sweep-1p-e2e", vec![(false, false)]),
        ("sweep-1p-p2p", vec![(true, false)]),
        ("sweep-2p-e2e", vec![(false, false), (false, false)]),
        ("sweep-2p-p2p+mo", vec![(true, false), (false, true)]),
    ];
    for (lname, ports) in layouts.iter() {
        for mask in 0u32..64 {
            if reduced && !(mask.count_ones() <= 1 || mask == 63) {
                continue;
            }
            for slave_only in [false, true] {
                if slave_only && (mask & 0b10110) != 0 && reduced {
                    continue;
                }
                for seeded in [false, true] {
                    let mut name = lname.to_string();
                    for (i, t) in TOKENS.iter().enumerate() {
                        if mask & (1 << i) != 0 {
                            name.push_str(t);
                        }
                    }
                    if slave_only {
                        name.push_str("+so");
                    }
                    if seeded {
                        name.push_str("+slave");
                    }
                    let seed = if seeded { vec![Ev::Ann(0, 0), Ev::Ann(0, 0), Ev::Bmca] } else { vec![] };
                    // names live for the whole process
                    let name: &'static str = Box::leak(name.into_boxed_str());
                    out.push(WorldDef { name, ports: ports.clone(), slave_only, seed, obedient: false, rich: false, depth: (3, 4) });
                }
            }
        }
    }
    out
}

pub fn build<'m, M: Monitor>(property: &'static str, monitor: &'m M, defs: Vec<WorldDef>, kalman: bool) -> Vec<(WorldSys<'m, M>, (usize, usize))> {
    defs.into_iter()
        .map(|d| {
            let mut node = NodeSpec::default();
            node.slave_only = d.slave_only;
            node.ports = d.ports.iter().map(|(p2p, mo)| PortSpec { p2p: *p2p, master_only: *mo, ..Default::default() }).collect();
            let mut cfg = WorldCfg { node: node.clone(), kalman, ..Default::default() };
            cfg.peers = vec![Peer::gm(1, 1), Peer::gm(2, 250), own_clock_peer(&node, 1)];
            let mut a = Alpha::new();
            for (p, (p2p, _)) in d.ports.iter().enumerate() {
                a = port_alphabet(a, p, *p2p, d.rich);
            }
            a = global_alphabet(a);
            if d.name.contains("two-better-masters") {
                cfg.peers[1].priority1 = 100;
            }
            // configuration tokens of the sweep worlds
            if d.name.contains("+aml") {
                // port 1 accepts only A, port 2 (if any) only B
                let a = statime::config::ClockIdentity(cfg.peers[0].pid.clock);
                let b = statime::config::ClockIdentity(cfg.peers[1].pid.clock);
                for (i, p) in cfg.node.ports.iter_mut().enumerate() {
                    p.aml = Some(vec![if i % 2 == 0 { a } else { b }]);
                }
            }
            if d.name.contains("+pt") {
                cfg.node.path_trace = true;
            }
            if d.name.contains("+iv") {
                for p in cfg.node.ports.iter_mut() {
                    p.log_announce = 1;
                    p.log_sync = -2;
                    p.log_delay = -1;
                }
            }
            if d.name.contains("+sdo") {
                cfg.node.domain = 7;
                cfg.node.sdo = 0x123;
                for q in cfg.peers.iter_mut() {
                    q.domain = 7;
                    q.sdo = 0x123;
                }
            }
            if d.name.contains("+b100") {
                cfg.peers[1].priority1 = 100;
            }
            if d.name.contains("+bcpeers") {
                // the peers are boundary clocks: grandmaster, sender and every attribute distinct
                for (i, q) in cfg.peers.iter_mut().take(2).enumerate() {
                    q.gm_identity = [0xcc, 0, 0, 0, 0, 0, 0, 0x10 + i as u8];
                    q.steps_removed = 2 + i as u16;
                    q.priority2 = 77 + i as u8;
                    q.utc_offset = 35 - i as i16;
                    q.time_source = 0x20;
                    q.accuracy = 0x21 + i as u8;
                    q.variance = 0x4e5d;
                    q.class = 6 + (i as u8) * 7;
                }
            }
            let mut macros = vec![];
            if d.name.contains("shared-segment") {
                // the same frame (same sequence id) on every port, in port order
                for k in 0..2 {
                    let mut m = vec![Ev::Ann(0, k)];
                    m.extend((1..d.ports.len()).map(|q| Ev::AnnDup(q, k)));
                    macros.push(m);
                }
                a.0.retain(|e| !matches!(e, Ev::Ann(_, 0) | Ev::Ann(_, 1)));
                a = a.add(Ev::Macro(0)).add(Ev::Macro(1));
            }
            (
                WorldSys { property, name: d.name.to_string(), cfg, seed: d.seed, alphabet: a.0, obedient: d.obedient, monitor, macros },
                d.depth,
            )
        })
        .collect()
}

pub fn run(tier: Tier) -> i32 {
    let mut rep = Reporter::new("C08", tier, "model_checking");
    let built = build("C08", &RoleMon, world_defs(), true);
    let depths: std::collections::HashMap<String, (usize, usize)> = built.iter().map(|(s, d)| (s.name.clone(), *d)).collect();
    let systems: Vec<_> = built.into_iter().map(|(s, _)| s).collect();
    explore_all(&mut rep, &systems, |s| tier.pick(depths[&s.name].0, depths[&s.name].1), tier.pick(12.0, 300.0));
    // configuration sweep at shallow depth
    let sweep: Vec<_> = build("C08", &RoleMon, sweep_defs(tier == Tier::Quick), true).into_iter().map(|(s, _)| s).collect();
    explore_more(&mut rep, "sweep", &sweep, tier.pick(3, 4), tier.pick(2.0, 30.0));
    // engine validation: stateright's own breadth-first checker explores the same systems (same
    // real transition function, its own visited set, an independent 128-bit key hash) and must
    // count exactly the states E1 counts.  One child process per world, single-threaded each
    // (stateright's parallel search is not exact under a depth bound).
    let names: Vec<String> = systems.iter().map(|s| s.name.clone()).collect();
    let children: Vec<_> = names
        .iter()
        .map(|n| {
            let d = tier.pick(3, if n == "3p-mixed" { 4 } else { 5 });
            (n.clone(), d, std::process::Command::new("/verif/target/sr/release/srck").arg(d.to_string()).arg(n).stdout(std::process::Stdio::piped()).stderr(std::process::Stdio::null()).spawn())
        })
        .collect();
    let mut cross = vec![];
    for (n, d, c) in children {
        let out = match c.and_then(|c| c.wait_with_output()) {
            Ok(o) => o,
            Err(e) => {
                eprintln!("machinery error: cannot run the stateright cross-count for world {n}: {e}");
                return 2;
            }
        };
        let text = String::from_utf8_lossy(&out.stdout).to_string();
        let line = text.lines().find_map(|l| l.strip_prefix("SRRESULT ")).and_then(|l| serde_json::from_str::<serde_json::Value>(l).ok());
        match (out.status.code(), line) {
            (Some(0), Some(v)) => cross.extend(v.as_array().cloned().unwrap_or_default()),
            (Some(3), Some(v)) => {
                eprintln!("machinery error: E1 and stateright disagree on the number of states of world {n} at depth {d}: {v}");
                return 2;
            }
            (c, _) => {
                eprintln!("machinery error: stateright cross-count for world {n} ended with status {c:?}");
                return 2;
            }
        }
    }
    rep.cover("stateright_cross_count", json!(cross));
    rep.assume("engine validation: for every world, stateright's BFS checker (single-threaded, own visited set, FNV-128 key hash) and E1 count the same number of unique states to the cross-count depth");
    rep.assume("filter: the real KalmanFilter (default configuration) behind a recording wrapper; clock: one recording clock shared by all ports, commands tagged with the issuing port");
    rep.finish()
}

pub fn replay(r: &serde_json::Value) {
    let mut defs = world_defs();
    defs.extend(sweep_defs(false));
    let systems: Vec<_> = build("C08", &RoleMon, defs, true).into_iter().map(|(s, _)| s).collect();
    replay_world(&systems, r);
}
