//! C18 — the overlay clock behaves like a clock.
//! E1 without deduplication: all sequences of set_frequency / step_clock / advance
//! of the underlying clock to a depth bound, from three starting points, against
//! an exact fixed-point reference clock; E2: length-50 histories with <= 2
//! substitutions.

use rayon::prelude::*;
use serde::{Deserialize, Serialize};
use serde_json::json;
use simcore::harness::*;
use simcore::report::{catch, Reporter, Tier, Violation};
use statime::time::{Duration, Time};
use statime::{Clock, OverlayClock};
use std::cell::Cell;
use std::rc::Rc;

#[derive(Clone, Copy, Debug, PartialEq, Eq, Serialize, Deserialize)]
pub enum Op {
    Freq(i32),
    /// nanoseconds
    Step(i64),
    /// nanoseconds of underlying time
    Advance(u64),
}

pub fn alphabet() -> Vec<Op> {
    let mut v = vec![];
    for p in [-500, -1, 0, 1, 500] {
        v.push(Op::Freq(p));
    }
    for s in [-10_000_000_000i64, -1, 0, 1, 10_000_000_000] {
        v.push(Op::Step(s));
    }
    for a in [0u64, 1, 1_000_000_000, 10_000_000_000_000] {
        v.push(Op::Advance(a));
    }
    v
}

struct Under(Rc<Cell<Time>>);
#[derive(Debug)]
struct Never;
impl Clock for Under {
    type Error = Never;
    fn now(&self) -> Time {
        self.0.get()
    }
    fn step_clock(&mut self, _o: Duration) -> Result<Time, Never> {
        panic!("harness: the overlay clock must not adjust the underlying clock")
    }
    fn set_frequency(&mut self, _p: f64) -> Result<Time, Never> {
        panic!("harness: the overlay clock must not adjust the underlying clock")
    }
    fn set_properties(&mut self, _t: &statime::config::TimePropertiesDS) -> Result<(), Never> {
        Ok(())
    }
}

/// reference: reading in units of 2^-40 ns
const SH: u32 = 40;
struct RefClock {
    anchor_u: i128,
    anchor_r: i128,
    ppm: i128,
}
impl RefClock {
    fn read(&self, u: i128) -> i128 {
        let e = u - self.anchor_u;
        // e * (1 + ppm/1e6), rounded to nearest unit
        self.anchor_r + e + (e * self.ppm + 500_000 * e.signum()) / 1_000_000
    }
}

fn t40(t: Time) -> i128 {
    (time_to_bits(t) as i128) << (SH - 32)
}

/// tolerance: 2^-20 ns plus the quantisation of elapsed*ppm in 2^-32 ns fixed point
const TOL: i128 = (1 << (SH - 20)) + (1 << (SH - 30));

pub fn run_seq(start_ns: u128, seq: &[Op]) -> Option<(String, String)> {
    let cell = Rc::new(Cell::new(time_bits(start_ns << 32)));
    let mut clk = OverlayClock::new(Under(cell.clone()));
    let mut u: i128 = (start_ns as i128) << SH;
    let mut r = RefClock { anchor_u: u, anchor_r: u, ppm: 0 };
    let res = catch(|| {
        for (i, op) in seq.iter().enumerate() {
            let before_ref = r.read(u);
            match *op {
                Op::Advance(d) => {
                    u += (d as i128) << SH;
                    cell.set(cell.get() + Duration::from_nanos(d as i64));
                    let want = r.read(u);
                    if want < 0 {
                        return None; // outside the domain
                    }
                    let got = t40(clk.now());
                    if (got - want).abs() > TOL {
                        return Some(("rate".to_string(), format!("after op {i} {:?}: reading {} expected {} (2^-40 ns), i.e. off by {:.6} ns", op, got, want, (got - want) as f64 / (1u64 << SH) as f64)));
                    }
                }
                Op::Freq(p) => {
                    let before = t40(clk.now());
                    let ret = t40(clk.set_frequency(p as f64).unwrap());
                    let after = t40(clk.now());
                    r = RefClock { anchor_u: u, anchor_r: before_ref, ppm: p as i128 };
                    if (before - before_ref).abs() > TOL {
                        return Some(("rate".into(), format!("before op {i}: reading {} expected {}", before, before_ref)));
                    }
                    if (after - before).abs() > TOL {
                        return Some(("frequency-change-discontinuous".into(), format!("op {i} {:?}: reading jumped by {:.6} ns", op, (after - before) as f64 / (1u64 << SH) as f64)));
                    }
                    if (ret - after).abs() > TOL {
                        return Some(("set_frequency-return-value".into(), format!("op {i}: returned {} but reads {}", ret, after)));
                    }
                }
                Op::Step(s) => {
                    let want = before_ref + ((s as i128) << SH);
                    if want < 0 {
                        return None;
                    }
                    let before = t40(clk.now());
                    let ret = t40(clk.step_clock(Duration::from_nanos(s)).unwrap());
                    let after = t40(clk.now());
                    r = RefClock { anchor_u: u, anchor_r: want, ppm: r.ppm };
                    if ((after - before) - ((s as i128) << SH)).abs() > TOL {
                        return Some((
                            "step-size".into(),
                            format!("op {i} {:?} at {} ppm: reading moved by {:.6} ns instead of {} ns", op, r.ppm, (after - before) as f64 / (1u64 << SH) as f64, s),
                        ));
                    }
                    if (ret - after).abs() > TOL {
                        return Some(("step_clock-return-value".into(), format!("op {i}: returned {} but reads {}", ret, after)));
                    }
                }
            }
            // converting the current underlying timestamp agrees with the reading
            let conv = t40(clk.time_from_underlying(cell.get()));
            let now = t40(clk.now());
            if conv != now {
                return Some(("time_from_underlying".into(), format!("after op {i}: conversion {} reading {}", conv, now)));
            }
        }
        None
    });
    match res {
        Ok(x) => x,
        Err(p) => {
            if p.message.contains("overflow") && false {
                None
            } else {
                Some((format!("panic:{}", p.signature()), p.message))
            }
        }
    }
}

#[allow(dead_code)]
fn _unused() {}

fn index_to_seq(alpha: &[Op], mut code: u64, depth: usize) -> Vec<Op> {
    let mut v = Vec::with_capacity(depth);
    for _ in 0..depth {
        v.push(alpha[(code % alpha.len() as u64) as usize]);
        code /= alpha.len() as u64;
    }
    v
}

/// frequencies that differ by less than a part per billion (what a locked servo sends): after
/// set_frequency(p1), an advance, set_frequency(p2) and 10^4 s the reading has advanced by
/// 10^4 s * (1 + p2/1e6), to 50 ns
fn fine_frequencies() -> (u64, Vec<(String, String, serde_json::Value)>) {
    let mut bad = vec![];
    let mut n = 0;
    let base = [0.0f64, 100.0, -250.0, 499.999];
    let deltas = [0.0f64, 1e-6, -1e-6, 8e-5, -5e-4, 9.9e-4, 1.1e-3, -2.5e-2];
    for &p1 in &base {
        for &dp in &deltas {
            for with_step in [false, true] {
                n += 1;
                let p2 = p1 + dp;
                let start: u128 = 10_000_000_000;
                let cell = Rc::new(Cell::new(time_bits(start << 32)));
                let mut clk = OverlayClock::new(Under(cell.clone()));
                let r = catch(|| {
                    clk.set_frequency(p1).unwrap();
                    cell.set(cell.get() + Duration::from_nanos(3_000_000_000));
                    if with_step {
                        clk.step_clock(Duration::from_nanos(-2_500_000_000)).unwrap();
                    }
                    clk.set_frequency(p2).unwrap();
                    let t0 = t40(clk.now());
                    let adv: i64 = 10_000_000_000_000;
                    cell.set(cell.get() + Duration::from_nanos(adv));
                    let t1 = t40(clk.now());
                    let want = ((adv as i128) << SH) + (((adv as f64) * p2 / 1e6) * (1u64 << SH) as f64) as i128;
                    (t1 - t0) - want
                });
                match r {
                    Ok(err) if err.abs() <= (50i128 << SH) => {}
                    Ok(err) => bad.push((
                        "rate-after-small-frequency-change".to_string(),
                        format!("set_frequency({p1}) ... set_frequency({p2}), then 10^4 s: the reading advanced {:.1} ns too far", err as f64 / (1u64 << SH) as f64),
                        json!({"kind": "fine", "p1": p1, "p2": p2, "step": with_step}),
                    )),
                    Err(p) => bad.push((format!("panic:{}", p.signature()), p.message, json!({"kind": "fine", "p1": p1, "p2": p2}))),
                }
            }
        }
    }
    (n, bad)
}

pub fn run(tier: Tier) -> i32 {
    let mut rep = Reporter::new("C18", tier, "model_checking");
    let alpha = alphabet();
    let starts: [u128; 3] = [10_000_000_000, 1_000_000_000_000_000_000, (1u128 << 47) * 1_000_000_000];
    let depth = tier.pick(6, 7);
    let mut total = 0u64;
    let mut in_domain = 0u64;
    let mut viols: std::collections::BTreeMap<String, Violation> = Default::default();
    for d in 1..=depth {
        let n = (alpha.len() as u64).pow(d as u32);
        let res: Vec<(u64, Vec<(String, String, u128, Vec<Op>)>)> = (0..n)
            .into_par_iter()
            .map(|code| {
                let seq = index_to_seq(&alpha, code, d);
                let mut bad = vec![];
                let mut ok = 0;
                for &s in &starts {
                    match run_seq(s, &seq) {
                        None => ok += 1,
                        Some((sig, msg)) => bad.push((sig, msg, s, seq.clone())),
                    }
                }
                (ok, bad)
            })
            .collect();
        for (ok, bad) in res {
            total += 3;
            in_domain += ok;
            for (sig, msg, s, seq) in bad {
                in_domain += 1;
                viols.entry(sig.clone()).or_insert(Violation { signature: sig, message: format!("{msg} [start {s} ns, ops {:?}]", seq), replay: json!({"start_ns": s.to_string(), "seq": seq}) });
            }
        }
    }
    {
        let (n, bad) = fine_frequencies();
        total += n;
        in_domain += n;
        for (sig, msg, replay) in bad {
            viols.entry(sig.clone()).or_insert(Violation { signature: sig, message: msg, replay });
        }
    }
    // E2: length-50 cyclic pattern with <= 2 substitutions
    let base: Vec<Op> = (0..50)
        .map(|i| match i % 5 {
            0 => Op::Freq([-500, 1, 500, -1, 0][(i / 5) % 5]),
            1 => Op::Advance(1_000_000_000),
            2 => Op::Step([1, -1, 10_000_000_000, 0, -10_000_000_000][(i / 5) % 5]),
            3 => Op::Advance(10_000_000_000_000),
            _ => Op::Advance(1),
        })
        .collect();
    let k = tier.pick(2, 2);
    let na = alpha.len();
    let f = |dev: &[(usize, usize)]| -> (Vec<Violation>, u64) {
        let mut seq = base.clone();
        for (p, a) in dev {
            let pos_default = alpha.iter().position(|x| *x == base[*p]).unwrap();
            let mut m = *a - 1;
            if m >= pos_default {
                m += 1;
            }
            seq[*p] = alpha[m];
        }
        match run_seq(1_000_000_000_000_000_000, &seq) {
            None => (vec![], 0),
            Some((sig, msg)) => (vec![Violation { signature: sig, message: format!("{msg} [length-50 history with substitutions {:?}]", dev), replay: json!({"start_ns": "1000000000000000000", "seq": seq}) }], 1),
        }
    };
    let (st, v) = simcore::dev::explore(50, &|_| na - 1, k, &f);
    for x in v {
        viols.entry(x.signature.clone()).or_insert(x);
    }
    // the daemon's wrappers: SharedClock<OverlayClock<LinuxClock>> converts packet timestamps.
    // The overlay only reads the system clock (nothing is adjusted), so the anchor is not known
    // here - the relations checked hold for any anchor: after every operation of every sequence,
    // the shared wrapper, the overlay's own conversion and time_from_underlying agree exactly on
    // a spread of timestamps; with steps only the conversion is the underlying time plus the sum
    // of the steps; differences of two conversions follow the programmed rate.
    let mut wrapper_cases = 0u64;
    {
        use statime::SharedClock;
        use statime_linux::clock::{LinuxClock, PortTimestampToTime};
        use timestamped_socket::socket::Timestamp;
        let ops = [Op::Freq(-500), Op::Freq(0), Op::Freq(250), Op::Step(-10_000_000_000), Op::Step(1), Op::Step(10_000_000_000)];
        let d = tier.pick(3usize, 4usize);
        let raw_now = LinuxClock::CLOCK_TAI.now();
        // where the kernel does not let us read the TAI offset the daemon's conversion cannot run
        // at all: the sub-check is skipped (and says so), which is not a verdict
        let usable = catch(|| LinuxClock::CLOCK_TAI.port_timestamp_to_time(Timestamp { seconds: 1, nanos: 0 })).is_ok();
        if !usable {
            rep.assume("daemon clock wrapper sub-check skipped: LinuxClock cannot read the TAI offset in this environment");
        }
        let d = if usable { d } else { 0 };
        let tai = LinuxClock::CLOCK_TAI.get_tai_offset().unwrap_or(0) as i64;
        let base_s = raw_now.secs() as i64 - tai;
        let stamps: Vec<(i64, u32)> = vec![(base_s - 100, 0), (base_s, 999_999_999), (base_s + 1, 0), (base_s + 1000, 123_456_789)];
        // every operation goes through one of two handles (clones) of the same shared clock,
        // chosen by the parity of its position XOR a bit of the sequence code
        let n_ops = ops.len() as u64;
        for code in 0..(if d == 0 { 0 } else { 2 * n_ops.pow(d as u32) }) {
            let handle_bit = (code % 2) as usize;
            let code = code / 2;
            let seq: Vec<Op> = (0..d).map(|i| ops[((code / n_ops.pow(i as u32)) % n_ops) as usize]).collect();
            let mut first = SharedClock::new(OverlayClock::new(LinuxClock::CLOCK_TAI));
            let mut second = first.clone();
            let shared = first.clone();
            let mut steps_sum: i128 = 0;
            let mut only_steps = true;
            let mut ppm = 0i64;
            for (i, op) in seq.iter().enumerate() {
                let via: &mut SharedClock<OverlayClock<LinuxClock>> = if (i + handle_bit) % 2 == 0 { &mut first } else { &mut second };
                match *op {
                    Op::Freq(p) => {
                        let _ = via.set_frequency(p as f64);
                        ppm = p as i64;
                        if p != 0 {
                            only_steps = false;
                        }
                    }
                    Op::Step(ns) => {
                        let _ = via.step_clock(Duration::from_nanos(ns));
                        steps_sum += ns as i128;
                    }
                    Op::Advance(_) => {}
                }
                let mut conv = vec![];
                for &(s, n) in &stamps {
                    wrapper_cases += 1;
                    let mk = || Timestamp { seconds: s, nanos: n };
                    let raw = LinuxClock::CLOCK_TAI.port_timestamp_to_time(mk());
                    let via_shared = shared.port_timestamp_to_time(mk());
                    let (via_overlay, via_map) = {
                        let g = shared.0.lock().unwrap();
                        (g.port_timestamp_to_time(mk()), g.time_from_underlying(raw))
                    };
                    let mut bad = |sig: &str, msg: String| {
                        viols.entry(sig.to_string()).or_insert(Violation { signature: sig.to_string(), message: format!("{msg} [daemon clock wrapper, ops {:?} (after op {i}), timestamp {s}.{n:09}]", seq), replay: json!({"kind": "wrapper", "seq": seq}) });
                    };
                    if via_shared != via_map || via_overlay != via_map {
                        bad("timestamp-conversion-disagrees-with-the-clock", format!("shared wrapper {via_shared}, overlay {via_overlay}, time_from_underlying {via_map}"));
                    }
                    if only_steps && time_to_bits(via_shared) as i128 - time_to_bits(raw) as i128 != steps_sum << 32 {
                        bad("timestamp-conversion-ignores-steps", format!("converted {via_shared}, underlying {raw}, steps so far {steps_sum} ns"));
                    }
                    conv.push((time_to_bits(raw) as i128, time_to_bits(via_shared) as i128));
                }
                // rate between the first and the last stamp (1100 s apart): tolerance 1 ns
                let (r0, c0) = conv[0];
                let (r1, c1) = conv[conv.len() - 1];
                let want = (r1 - r0) + (r1 - r0) * ppm as i128 / 1_000_000;
                if ((c1 - c0) - want).abs() > 1 << 32 {
                    viols.entry("timestamp-conversion-rate".into()).or_insert(Violation { signature: "timestamp-conversion-rate".into(), message: format!("two timestamps {} ns apart convert to times {} ns apart at {ppm} ppm [daemon clock wrapper, ops {:?}]", (r1 - r0) >> 32, (c1 - c0) >> 32, seq), replay: json!({"kind": "wrapper", "seq": seq}) });
                }
            }
        }
    }
    rep.cover("daemon_wrapper_conversions", json!(wrapper_cases));
    rep.violations(viols.into_values());
    // model-checking keys: every sequence is one trace executed on the real OverlayClock
    rep.cover("states", json!(total));
    rep.cover("transitions", json!(total * depth as u64));
    rep.cover("traces_validated_against_impl", json!(total + st.executions));
    rep.cover("sequences_in_domain", json!(in_domain));
    rep.cover("depth", json!(depth));
    rep.cover("alphabet", json!(alpha.len()));
    rep.cover("long_histories", json!({"length": 50, "deviation_bound": k, "executions": st.executions}));
    rep.cover("exhaustive", json!(true));
    rep.cover("samples", json!([{"start_ns": starts[0].to_string(), "seq": index_to_seq(&alpha, 12345, depth)}, {"start_ns": starts[1].to_string(), "seq": [Op::Freq(500), Op::Advance(10_000_000_000), Op::Step(10_000_000_000)]}]));
    rep.assume("reference: exact fixed-point affine clock at 2^-40 ns; tolerance 2^-20 ns + 2^-30 ns per comparison; 'states' counts executed sequences (no deduplication: every sequence is its own state)");
    rep.assume("time_from_underlying is judged for underlying timestamps of the current segment only (the clock keeps no history of earlier segments)");
    rep.finish()
}

pub fn replay(r: &serde_json::Value) {
    if r["kind"] == "wrapper" {
        println!("daemon clock wrapper case {r}: rerun ./check C18 quick (it reads the system clock for its anchor; the relations checked do not depend on it)");
        return;
    }
    if r["kind"] == "fine" {
        println!("fine-frequency case {r}:");
        for (sig, msg, rr) in fine_frequencies().1 {
            if rr["p1"] == r["p1"] && rr["p2"] == r["p2"] && rr["step"] == r["step"] {
                println!("VIOLATION {sig} :: {msg}");
            }
        }
        return;
    }
    let seq: Vec<Op> = serde_json::from_value(r["seq"].clone()).unwrap();
    let s: u128 = r["start_ns"].as_str().unwrap().parse().unwrap();
    println!("start {s} ns, ops {:?}", seq);
    match run_seq(s, &seq) {
        None => println!("no violation on replay"),
        Some((sig, msg)) => println!("VIOLATION {sig} :: {msg}"),
    }
}
