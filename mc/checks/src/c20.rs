//! C20 — the metrics exporter cannot be wedged by its clients.
//! E5: all sequences (to a length bound) of client behaviours x observation-socket
//! behaviours against the real exporter process, each followed by a well-formed
//! probe that must be answered within a deadline.

use serde::{Deserialize, Serialize};
use serde_json::json;
use simcore::report::{Reporter, Tier, Violation};
use std::io::{Read, Write};
use std::net::TcpStream;
use std::os::fd::AsRawFd;
use std::time::{Duration, Instant};

use crate::exporter::*;

#[derive(Clone, Copy, Debug, PartialEq, Eq, Serialize, Deserialize, PartialOrd, Ord)]
pub enum Client {
    Get,
    ConnectClose,
    ClosePartialLine,
    CloseAfterRequestLine,
    Fill2048,
    Send3000,
    Post,
    SplitGet,
    /// well-formed GET split after k bytes
    SplitAt(usize),
    /// the first k bytes of a well-formed GET (or, from 1000 on, of a POST), then close
    CloseAfter(usize),
    /// the first k bytes of a well-formed GET, then reset
    ResetAfter(usize),
    ResetPartial,
    ResetAfterRequest,
    GetNoRead,
    /// unusual request bytes (index into ODD_REQUESTS), whatever answer comes is read and dropped
    Odd(usize),
}

/// requests a lenient or careless parser treats specially: leading empty lines (RFC 9112 2.2
/// lets a server skip them), bare line feeds, a complete header block without a request line,
/// NUL and high octets, an HTTP/0.9 request, absolute-form and asterisk-form targets, a very
/// long request line that ends, lower-case verb, several requests in one segment
pub const ODD_REQUESTS: [&[u8]; 14] = [
    b"\r\n\r\n",
    b"\r\nGET /metrics HTTP/1.1\r\n\r\n",
    b"\r\n\r\n\r\nGET /metrics HTTP/1.1\r\nHost: x\r\n\r\n",
    b"\n\nGET /metrics HTTP/1.1\n\n",
    b"\n",
    b"\r",
    b"\0\0\0\0\r\n\r\n",
    b"\xff\xfe\xfd GET\r\n\r\n",
    b"GET /metrics\r\n",
    b"GET http://localhost/metrics HTTP/1.1\r\nHost: localhost\r\n\r\n",
    b"OPTIONS * HTTP/1.1\r\n\r\n",
    b"get /metrics http/1.1\r\n\r\n",
    b"GET /metrics HTTP/1.1\r\n\r\nGET /metrics HTTP/1.1\r\n\r\nGET /metrics HTTP/1.1\r\n\r\n",
    b"GET  /metrics  HTTP/1.1 \r\n \r\n\r\n",
];

#[derive(Clone, Copy, Debug, PartialEq, Eq, Serialize, Deserialize, PartialOrd, Ord)]
pub enum ObsKind {
    Valid,
    Truncated,
    Invalid,
    Absent,
    CloseEarly,
    /// socket file present, nobody listening
    Stale,
    /// valid JSON of an instance whose last port uses the peer-delay mechanism
    ValidP2pLast,
}

pub const CLIENTS: [Client; 11] = [
    Client::Get,
    Client::ConnectClose,
    Client::ClosePartialLine,
    Client::CloseAfterRequestLine,
    Client::Fill2048,
    Client::Send3000,
    Client::Post,
    Client::SplitGet,
    Client::ResetPartial,
    Client::ResetAfterRequest,
    Client::GetNoRead,
];
pub const OBS: [ObsKind; 7] = [ObsKind::Valid, ObsKind::Truncated, ObsKind::Invalid, ObsKind::Absent, ObsKind::CloseEarly, ObsKind::Stale, ObsKind::ValidP2pLast];

fn p2p_last_spec() -> simcore::harness::NodeSpec {
    use simcore::harness::*;
    let mut n = NodeSpec::default();
    n.ports = vec![PortSpec::default(), PortSpec { p2p: true, ..Default::default() }];
    n
}

fn valid_json() -> Vec<u8> {
    valid_json_of(&simcore::harness::NodeSpec::default())
}

fn valid_json_of(spec: &simcore::harness::NodeSpec) -> Vec<u8> {
    // a real observable state
    use simcore::harness::*;
    let o = with_node::<RecFilter, _>(spec, |_| RecCfg(Default::default(), false), |node| statime_linux::observer::ObservableInstanceState {
        default_ds: node.inst.default_ds(),
        current_ds: node.inst.current_ds(None),
        parent_ds: node.inst.parent_ds(),
        time_properties_ds: node.inst.time_properties_ds(),
        path_trace_ds: node.inst.path_trace_ds(),
        port_ds: (0..node.ports.len()).map(|p| node.port_ref(p).port_ds()).collect(),
    });
    let st = statime_linux::metrics::exporter::ObservableState { program: statime_linux::metrics::exporter::ProgramData::with_uptime(1.0), instance: o };
    serde_json::to_vec(&st).unwrap()
}

fn obs_behaviour(k: ObsKind, valid: &[u8]) -> Obs {
    match k {
        ObsKind::Valid => Obs::Bytes(valid.to_vec()),
        ObsKind::Truncated => Obs::Bytes(valid[..valid.len() / 2].to_vec()),
        ObsKind::Invalid => Obs::Bytes(b"{\"program\": 12, this is not json".to_vec()),
        ObsKind::Absent => Obs::Absent,
        ObsKind::CloseEarly => Obs::CloseEarly,
        ObsKind::Stale => Obs::Stale,
        ObsKind::ValidP2pLast => Obs::Bytes(valid_json_of(&p2p_last_spec())),
    }
}

fn reset(s: &TcpStream) {
    let l = libc::linger { l_onoff: 1, l_linger: 0 };
    unsafe {
        libc::setsockopt(s.as_raw_fd(), libc::SOL_SOCKET, libc::SO_LINGER, &l as *const _ as *const libc::c_void, std::mem::size_of::<libc::linger>() as u32);
    }
}

const REQ: &[u8] = b"GET /metrics HTTP/1.1\r\nHost: localhost\r\nAccept: */*\r\n\r\n";

/// perform one client behaviour; Err = could not even connect; Ok(Some(..)) = outcome of a
/// well-formed request (which must be answered)
fn act(addr: &str, c: Client, wait: Duration) -> Result<Option<Result<Response, String>>, String> {
    let mut answered = None;
    let mut s = TcpStream::connect(addr).map_err(|e| format!("connect: {e}"))?;
    s.set_read_timeout(Some(wait)).unwrap();
    s.set_nodelay(true).ok();
    let settle = Duration::from_millis(15);
    match c {
        Client::Get => {
            let _ = s.write_all(REQ);
            answered = Some(read_response(&mut s, wait));
        }
        Client::ConnectClose => {}
        Client::ClosePartialLine => {
            let _ = s.write_all(b"GET /me");
            std::thread::sleep(settle);
        }
        Client::CloseAfterRequestLine => {
            let _ = s.write_all(b"GET /metrics HTTP/1.1\r\n");
            std::thread::sleep(settle);
        }
        Client::Fill2048 => {
            let mut b = b"GET /metrics HTTP/1.1\r\nX-Pad: ".to_vec();
            b.resize(2048, b'a');
            let _ = s.write_all(&b);
            std::thread::sleep(Duration::from_millis(100));
        }
        Client::Send3000 => {
            let mut b = b"GET /metrics HTTP/1.1\r\nX-Pad: ".to_vec();
            b.resize(3000, b'a');
            let _ = s.write_all(&b);
            std::thread::sleep(settle);
        }
        Client::Post => {
            let _ = s.write_all(b"POST /metrics HTTP/1.1\r\nHost: localhost\r\nContent-Length: 0\r\n\r\n");
            let mut t = [0u8; 256];
            let _ = s.read(&mut t);
        }
        Client::SplitGet | Client::SplitAt(_) => {
            let cut = if let Client::SplitAt(k) = c { k } else { REQ.len() - 2 };
            let _ = s.write_all(&REQ[..cut]);
            std::thread::sleep(settle);
            let _ = s.write_all(&REQ[cut..]);
            answered = Some(read_response(&mut s, wait));
        }
        Client::CloseAfter(k) => {
            const POST: &[u8] = b"POST /metrics HTTP/1.1\r\n\r\n";
            let bytes = if k >= 1000 { &POST[..(k - 1000).min(POST.len())] } else { &REQ[..k.min(REQ.len())] };
            let _ = s.write_all(bytes);
            std::thread::sleep(settle);
        }
        Client::ResetAfter(k) => {
            let _ = s.write_all(&REQ[..k.min(REQ.len())]);
            std::thread::sleep(settle);
            reset(&s);
        }
        Client::ResetPartial => {
            let _ = s.write_all(b"GET /metrics HT");
            std::thread::sleep(settle);
            reset(&s);
        }
        Client::ResetAfterRequest => {
            let _ = s.write_all(REQ);
            reset(&s);
        }
        Client::GetNoRead => {
            let _ = s.write_all(REQ);
            std::thread::sleep(settle);
        }
        Client::Odd(i) => {
            let _ = s.write_all(ODD_REQUESTS[i % ODD_REQUESTS.len()]);
            s.set_read_timeout(Some(Duration::from_millis(60))).unwrap();
            let mut t = [0u8; 256];
            let _ = s.read(&mut t);
        }
    }
    drop(s);
    std::thread::sleep(Duration::from_millis(5));
    Ok(answered)
}

#[derive(Clone, Debug, Serialize, Deserialize)]
pub struct Seq(pub Vec<(Client, ObsKind)>);

struct Harness {
    dir: std::path::PathBuf,
    obs_path: std::path::PathBuf,
    server: ObsServer,
    exporter: Exporter,
    valid: Vec<u8>,
    restarts: u64,
}

impl Harness {
    fn new() -> Harness {
        let dir = scratch_dir("c20");
        let obs_path = dir.join("obs.sock");
        let server = ObsServer::start(obs_path.clone());
        let valid = valid_json();
        server.set(Obs::Bytes(valid.clone()));
        let exporter = Exporter::start(&dir, &obs_path);
        Harness { dir, obs_path, server, exporter, valid, restarts: 0 }
    }
    fn restart(&mut self) {
        self.server.set(Obs::Bytes(self.valid.clone()));
        let e = Exporter::start(&self.dir, &self.obs_path);
        let old = std::mem::replace(&mut self.exporter, e);
        drop(old);
        self.restarts += 1;
    }
    /// run the sequence, then the probe; Ok(()) if the exporter still serves
    fn run(&mut self, seq: &Seq, deadline: Duration) -> Result<(), String> {
        for (c, o) in &seq.0 {
            self.server.set(obs_behaviour(*o, &self.valid));
            // answers inside the sequence get half the probe's deadline
            let answered = act(&self.exporter.addr, *c, deadline / 2)?;
            if let Some(r) = answered {
                // a well-formed request is itself answered: 200 with data, an error status without
                let want = if matches!(*o, ObsKind::Valid | ObsKind::ValidP2pLast) { 200 } else { 500 };
                match r {
                    Ok(resp) if resp.status == want => {}
                    Ok(resp) => return Err(format!("the well-formed request {:?} with observation socket {:?} got status {} instead of {want}", c, o, resp.status)),
                    Err(e) => return Err(format!("the well-formed request {:?} with observation socket {:?} was not answered: {e}", c, o)),
                }
            }
            if !self.exporter.alive() {
                return Err(format!("the exporter process exited after {:?} with observation socket {:?}", c, o));
            }
        }
        self.server.set(Obs::Bytes(self.valid.clone()));
        let t = Instant::now();
        match get(&self.exporter.addr, deadline) {
            Ok(r) if r.status == 200 => Ok(()),
            Ok(r) => Err(format!("probe answered with status {} although the observation socket serves valid JSON", r.status)),
            Err(e) => {
                let alive = self.exporter.alive();
                Err(format!("probe not answered ({e}, after {:?}); process alive: {alive}", t.elapsed()))
            }
        }
    }
    fn spinning(&self) -> bool {
        let a = self.exporter.cpu_ticks();
        let t = Instant::now();
        std::thread::sleep(Duration::from_millis(200));
        let b = self.exporter.cpu_ticks();
        let hz = 100.0;
        (b - a) as f64 / hz > 0.5 * t.elapsed().as_secs_f64()
    }
}

fn classify(seq: &Seq, err: &str) -> String {
    // the first element that, alone, is known to be hostile gives the class
    let hostile: Vec<String> = seq
        .0
        .iter()
        .filter(|(c, o)| !matches!(c, Client::Get | Client::SplitGet | Client::SplitAt(_)) || !matches!(o, ObsKind::Valid))
        .map(|(c, o)| format!("{:?}+{:?}", c, o))
        .collect();
    let kind = if err.contains("well-formed request") {
        "well-formed-request-unanswered"
    } else if err.contains("exited") {
        "exit"
    } else if err.contains("status") {
        "wrong-status"
    } else {
        "no-answer"
    };
    format!("{kind}:{}", hostile.first().cloned().unwrap_or_else(|| "well-formed-only".into()))
}

pub fn sequences(tier: Tier) -> Vec<Seq> {
    let mut v = vec![];
    // length 1: full product
    for c in CLIENTS {
        for o in OBS {
            v.push(Seq(vec![(c, o)]));
        }
    }
    // a well-formed GET split at every position
    for k in 1..REQ.len() {
        v.push(Seq(vec![(Client::SplitAt(k), ObsKind::Valid)]));
    }
    // a well-formed GET (and a POST) cut off after every number of bytes, by close and by reset
    for k in 0..REQ.len() {
        v.push(Seq(vec![(Client::CloseAfter(k), ObsKind::Valid)]));
        if tier == Tier::Thorough || k < 8 || k % 4 == 0 {
            v.push(Seq(vec![(Client::ResetAfter(k), ObsKind::Valid)]));
        }
    }
    for k in 1..8 {
        v.push(Seq(vec![(Client::CloseAfter(1000 + k), ObsKind::Valid)]));
    }
    for i in 0..ODD_REQUESTS.len() {
        v.push(Seq(vec![(Client::Odd(i), ObsKind::Valid)]));
        v.push(Seq(vec![(Client::Odd(i), ObsKind::Absent)]));
    }
    // length 2
    for c1 in CLIENTS {
        for c2 in CLIENTS {
            if tier == Tier::Thorough {
                for o1 in OBS {
                    for o2 in OBS {
                        v.push(Seq(vec![(c1, o1), (c2, o2)]));
                    }
                }
            } else {
                v.push(Seq(vec![(c1, ObsKind::Valid), (c2, ObsKind::Valid)]));
            }
        }
    }
    if tier == Tier::Quick {
        for o1 in OBS {
            for o2 in OBS {
                v.push(Seq(vec![(Client::Get, o1), (Client::Get, o2)]));
                v.push(Seq(vec![(Client::SplitGet, o1), (Client::GetNoRead, o2)]));
            }
        }
    } else {
        // length 3 with at most two non-default elements
        for c1 in CLIENTS {
            for c2 in CLIENTS {
                for o in OBS {
                    v.push(Seq(vec![(c1, o), (Client::Get, ObsKind::Valid), (c2, ObsKind::Valid)]));
                    v.push(Seq(vec![(c1, ObsKind::Valid), (c2, o), (Client::Get, ObsKind::Valid)]));
                }
            }
        }
        // length 4: every triple of client behaviours, and every triple of observation-socket
        // behaviours under well-formed clients, each closed by a well-formed exchange
        for c1 in CLIENTS {
            for c2 in CLIENTS {
                for c3 in CLIENTS {
                    v.push(Seq(vec![(c1, ObsKind::Valid), (c2, ObsKind::Valid), (c3, ObsKind::Valid), (Client::Get, ObsKind::Valid)]));
                }
            }
        }
        for o1 in OBS {
            for o2 in OBS {
                for o3 in OBS {
                    v.push(Seq(vec![(Client::Get, o1), (Client::GetNoRead, o2), (Client::SplitGet, o3), (Client::Get, ObsKind::Valid)]));
                }
            }
        }
    }
    v
}

pub fn run(tier: Tier) -> i32 {
    let mut rep = Reporter::new("C20", tier, "fault_enumeration");
    let mut h = Harness::new();
    let seqs = sequences(tier);
    let deadline = Duration::from_secs(3);
    let mut viols: std::collections::BTreeMap<String, Violation> = Default::default();
    let mut failing = 0u64;
    for (i, s) in seqs.iter().enumerate() {
        let r = h.run(s, deadline);
        let spin = r.is_ok() && i % 25 == 24 && h.spinning();
        if r.is_ok() && !spin {
            continue;
        }
        let first_err = r.err().unwrap_or_else(|| "the exporter burns CPU while idle".to_string());
        // confirm on a fresh process, with five times the deadline, before reporting: a wedged,
        // exited or wrongly answering exporter fails at any deadline, a loaded machine does not
        h.restart();
        let confirmed = match h.run(s, deadline * 5) {
            Err(e) => Some(e),
            Ok(()) => {
                if h.spinning() {
                    Some("the exporter burns CPU while idle".to_string())
                } else {
                    None
                }
            }
        };
        if let Some(e) = confirmed {
            failing += 1;
            let sig = classify(s, &e);
            viols.entry(sig.clone()).or_insert(Violation {
                signature: sig,
                message: format!("after {:?} a well-formed request is no longer served: {e} (first run: {first_err})", s.0),
                replay: json!({"seq": s}),
            });
            h.restart();
            if failing >= 6 {
                // enough: every further failing sequence would cost another confirmation run
                rep.assume(format!("stopped after 6 confirmed failing sequences ({} of {} sequences run)", i + 1, seqs.len()));
                break;
            }
        }
    }
    let spinning_at_end = h.spinning();
    if spinning_at_end {
        viols.entry("spins-when-idle".into()).or_insert(Violation { signature: "spins-when-idle".into(), message: "the exporter burns CPU while idle at the end of the run".into(), replay: json!({"seq": []}) });
    }
    let restarts = h.restarts;
    let dir = h.dir.clone();
    drop(h);
    let _ = std::fs::remove_dir_all(&dir);
    rep.violations(viols.into_values());
    let nontrivial = seqs.iter().filter(|s| s.0.iter().any(|(c, o)| *c != Client::Get || *o != ObsKind::Valid)).count();
    rep.cover("evaluations", json!(seqs.len()));
    rep.cover("distinct_nontrivial", json!(nontrivial));
    rep.cover("failing_sequences_confirmed_on_fresh_process", json!(failing));
    rep.cover("process_restarts", json!(restarts));
    rep.cover("rule", json!("all sequences of (client behaviour, observation-socket behaviour) pairs: length 1 full product (11 x 7), plus a well-formed GET split after every byte position and cut off (close, reset) after every number of bytes; length 2 over all client pairs (quick: with a valid observation socket, plus all observation pairs on well-formed clients; thorough: full product) and, thorough, length 3 with at most two non-default elements and length 4 over all client triples and all observation-socket triples; each followed by a well-formed probe with a valid observation socket that must get status 200 within 3 s; non-trivial = sequences containing at least one hostile element"));
    rep.cover("samples", json!(seqs.iter().step_by(seqs.len() / 5 + 1).map(|s| json!(s)).collect::<Vec<_>>()));
    rep.cover("exhaustive", json!(true));
    rep.assume("kernel-level timing of FIN/RST delivery is not controlled: each behaviour waits a few milliseconds for its effect to be observable; a failure is reported only if it repeats on a fresh exporter process with five times the deadline (15 s)");
    rep.finish()
}

pub fn replay(r: &serde_json::Value) {
    let seq: Seq = serde_json::from_value(r["seq"].clone()).expect("seq");
    let mut h = Harness::new();
    let res = h.run(&seq, Duration::from_secs(3));
    println!("sequence {:?}: {:?}", seq.0, res);
    if let Err(e) = res {
        println!("VIOLATION {} :: {e}", classify(&seq, &e));
    }
    let dir = h.dir.clone();
    drop(h);
    let _ = std::fs::remove_dir_all(&dir);
}
