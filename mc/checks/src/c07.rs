//! C07 — traffic from unselected, unacceptable or foreign-domain sources has no
//! effect.  E1 over `World`; in every explored state every applicable noise
//! frame is applied and judged by one-step unwinding: no actions, no clock or
//! filter call, no rng draw, and the complete canonical state unchanged.  The
//! code is deterministic, so equal complete state implies identical behaviour
//! under every continuation: "run with insertions == run without" for all
//! insertion positions along all histories through explored states.

use serde_json::json;
use simcore::harness::*;
use simcore::refcodec::{self as rc, Body, Pid, Ts, F_TWO_STEP};
use simcore::report::{Reporter, Tier, Violation};
use simcore::scen::{state_name, Peer};
use simcore::world::*;

use crate::c08::{build, own_clock_peer, WorldDef};

pub struct NoiseMon;

fn announce_variant(peer: &Peer, f: impl FnOnce(&mut rc::Msg)) -> Vec<u8> {
    let mut m = peer.announce_msg(peer.announce_seq);
    f(&mut m);
    rc::encode(&m)
}

/// (label, bytes, on event interface) of every noise frame applicable to port `p` now
pub fn noise_frames(run: &Run<'_>, p: usize) -> Vec<(String, Vec<u8>, bool)> {
    let mut out: Vec<(String, Vec<u8>, bool)> = vec![];
    let a = &run.peers[0];
    let own = run.own_pid(p);
    let parent = run.node.inst.parent_ds().parent_port_identity;
    let parent = Pid { clock: parent.clock_identity.0, port: parent.port_number };
    let is_slave = matches!(run.node.port_ref(p).port_ds().port_state, PS::Slave);
    let p2p = run.cfg.node.ports[p].p2p;
    // wrong domain / sdoId / version, malformed
    // (relative to the instance's own domain and sdoId)
    let (my_dom, my_sdo) = (run.cfg.node.domain, run.cfg.node.sdo);
    out.push(("announce-other-domain".into(), announce_variant(a, |m| m.hdr.domain = my_dom.wrapping_add(1)), false));
    out.push(("announce-other-major-sdo".into(), announce_variant(a, |m| m.hdr.major_sdo = ((my_sdo >> 8) as u8 ^ 1) & 0x0f), false));
    out.push(("announce-other-minor-sdo".into(), announce_variant(a, |m| m.hdr.minor_sdo = (my_sdo as u8) ^ 1), false));
    out.push(("announce-version-1".into(), announce_variant(a, |m| m.hdr.version = 1), false));
    out.push(("announce-version-3".into(), announce_variant(a, |m| m.hdr.version = 3), false));
    {
        let mut b = announce_variant(a, |_| {});
        b.truncate(50);
        out.push(("announce-truncated-body".into(), b, false));
        let b = announce_variant(a, |m| m.hdr.length = Some(200));
        out.push(("announce-length-beyond-buffer".into(), b, false));
        let b = announce_variant(a, |m| m.tlvs = vec![rc::Tlv { typ: 0x4000, value: vec![1, 2, 3] }]);
        out.push(("announce-odd-tlv-length".into(), b, false));
        // a TLV suffix that is not a sequence of complete TLVs (messageLength covers all of it)
        for (what, suffix) in [
            ("announce-tlv-cut-off", vec![0x00u8, 0x08, 0x00, 0x10, 1, 2, 3, 4, 5, 6, 7, 8]),
            ("announce-stray-octets-behind-tlvs", vec![0x80, 0x08, 0x00, 0x00, 0xde, 0xad]),
            ("announce-three-stray-octets", vec![0x00, 0x08, 0x00]),
        ] {
            let mut b = announce_variant(a, |_| {});
            b.extend_from_slice(&suffix);
            let l = b.len() as u16;
            b[2..4].copy_from_slice(&l.to_be_bytes());
            out.push((what.into(), b, false));
        }
        out.push(("one-byte".into(), vec![0x0b], false));
        out.push(("empty".into(), vec![], false));
    }
    // the port's own identity
    {
        let mut me = a.clone();
        me.pid = own.clone();
        out.push(("announce-own-port-identity".into(), rc::encode(&me.announce_msg(7)), false));
    }
    // not on the acceptable master list (only where a list is configured)
    if let Some(list) = &run.cfg.node.ports[p].aml {
        let u = Peer::gm(0x99, 0);
        assert!(!list.iter().any(|c| c.0 == u.pid.clock));
        out.push(("announce-unacceptable-master".into(), rc::encode(&u.announce_msg(3)), false));
        out.push(("announce-unacceptable-master-again".into(), rc::encode(&u.announce_msg(4)), false));
        if let Some(listed) = list.first() {
            let mut relay = u.clone();
            relay.gm_identity = listed.0;
            relay.steps_removed = 1;
            out.push(("announce-unacceptable-relay-of-listed-grandmaster".into(), rc::encode(&relay.announce_msg(5)), false));
        }
    }
    // every harness peer that this port's list does not contain (it may well be the parent
    // selected through another port), with its usual and with conspicuously different contents
    if let Some(list) = &run.cfg.node.ports[p].aml {
        for (k, peer) in run.peers.iter().enumerate() {
            if list.iter().any(|c| c.0 == peer.pid.clock) {
                continue;
            }
            out.push((format!("announce-peer-not-on-this-ports-list-{k}"), rc::encode(&peer.announce_msg(peer.announce_seq)), false));
            let mut forged = peer.clone();
            forged.priority1 = 1;
            forged.priority2 = 3;
            forged.gm_identity = [0xee; 8];
            forged.steps_removed = forged.steps_removed.wrapping_add(40);
            forged.utc_offset = -5;
            forged.flags = [0x02, 0x3f];
            out.push((format!("announce-peer-not-on-this-ports-list-other-contents-{k}"), rc::encode(&forged.announce_msg(peer.announce_seq.wrapping_add(1))), false));
            // an unlisted boundary clock relaying a grandmaster that IS on the list
            if let Some(listed) = list.first() {
                let mut relay = peer.clone();
                relay.gm_identity = listed.0;
                relay.steps_removed = 1;
                relay.priority1 = 1;
                out.push((format!("announce-unlisted-relay-of-listed-grandmaster-{k}"), rc::encode(&relay.announce_msg(peer.announce_seq)), false));
                out.push((format!("announce-unlisted-relay-of-listed-grandmaster-again-{k}"), rc::encode(&relay.announce_msg(peer.announce_seq.wrapping_add(1))), false));
            }
        }
    }
    // Sync / Follow_Up / Delay_Resp not from the selected parent
    for (k, peer) in run.peers.iter().enumerate() {
        let from_parent = is_slave && peer.pid == parent;
        let ts = Ts::from_ns(run.cfg.rx_ns as u128 - 777);
        let seq = run.last_sync[p][k].map(|s| s.wrapping_add(1)).unwrap_or(5);
        let dr_seq = run.hosts[p].last_delay_req_seq.unwrap_or(0);
        if !from_parent {
            out.push((format!("sync-1step-nonparent-{k}"), peer.sync(seq, false, ts, 0), true));
            out.push((format!("sync-2step-nonparent-{k}"), peer.sync(seq, true, ts, 0), true));
            out.push((format!("followup-nonparent-{k}"), peer.follow_up(seq, ts, 0), false));
            out.push((format!("delayresp-nonparent-{k}"), peer.delay_resp(dr_seq, ts, 0, &own), false));
        } else {
            // from the parent, but answering someone else's request
            let mut other = own.clone();
            other.port = other.port.wrapping_add(3);
            out.push((format!("delayresp-parent-other-requester-{k}"), peer.delay_resp(dr_seq, ts, 0, &other), false));
            let mut other2 = own.clone();
            other2.clock[7] ^= 0x55;
            out.push((format!("delayresp-parent-other-clock-{k}"), peer.delay_resp(dr_seq, ts, 0, &other2), false));
        }
        if p2p {
            let pd_seq = run.hosts[p].last_pdelay_req_seq.unwrap_or(0);
            let mut other = own.clone();
            other.port = other.port.wrapping_add(3);
            out.push((format!("pdelayresp-other-requester-{k}"), peer.pdelay_resp(pd_seq, true, ts, 0, &other), true));
            out.push((format!("pdelayfup-other-requester-{k}"), peer.pdelay_resp_fup(pd_seq, ts, 0, &other), false));
        }
    }
    // a sibling port of the parent's clock is not the parent; frames that would be
    // valid from the parent but carry another domain / sdoId / version are foreign
    for (k, peer) in run.peers.iter().enumerate() {
        let ts = Ts::from_ns(run.cfg.rx_ns as u128 - 555);
        let seq = run.last_sync[p][k].map(|s| s.wrapping_add(1)).unwrap_or(5);
        let cur = run.last_sync[p][k].unwrap_or(5);
        let dr_seq = run.hosts[p].last_delay_req_seq.unwrap_or(0);
        let pd_seq = run.hosts[p].last_pdelay_req_seq.unwrap_or(0);
        let mut sib = peer.clone();
        sib.pid.port = sib.pid.port.wrapping_add(1);
        if !(is_slave && sib.pid == parent) {
            out.push((format!("sync-1step-sibling-port-{k}"), sib.sync(seq, false, ts, 0), true));
            out.push((format!("sync-2step-sibling-port-{k}"), sib.sync(seq, true, ts, 0), true));
            out.push((format!("followup-sibling-port-{k}"), sib.follow_up(cur, ts, 0), false));
            out.push((format!("delayresp-sibling-port-{k}"), sib.delay_resp(dr_seq, ts, 0, &own), false));
        }
        for (what, dom, sdo, ver) in [("other-domain", my_dom.wrapping_add(1), my_sdo, 2u8), ("other-sdo", my_dom, my_sdo ^ 0x100, 2), ("other-minor-sdo", my_dom, my_sdo ^ 0x001, 2), ("version-1", my_dom, my_sdo, 1)] {
            let mut f = peer.clone();
            f.domain = dom;
            f.sdo = sdo;
            let fix = |mut b: Vec<u8>| {
                b[1] = (b[1] & 0xf0) | ver;
                b
            };
            out.push((format!("sync-1step-{what}-{k}"), fix(f.sync(seq, false, ts, 0)), true));
            out.push((format!("sync-2step-{what}-{k}"), fix(f.sync(seq, true, ts, 0)), true));
            out.push((format!("followup-{what}-{k}"), fix(f.follow_up(cur, ts, 0)), false));
            out.push((format!("delayresp-{what}-{k}"), fix(f.delay_resp(dr_seq, ts, 0, &own)), false));
            out.push((format!("delayreq-{what}-{k}"), fix(f.delay_req(3, 0)), true));
            out.push((format!("pdelayreq-{what}-{k}"), fix(f.pdelay_req(3, 0)), true));
            if p2p {
                out.push((format!("pdelayresp-{what}-{k}"), fix(f.pdelay_resp(pd_seq, false, ts, 0, &own)), true));
                out.push((format!("pdelayfup-{what}-{k}"), fix(f.pdelay_resp_fup(pd_seq, ts, 0, &own)), false));
            }
        }
    }
    // event-type messages arriving on the general interface are dropped
    {
        let mut h = a.hdr(9);
        h.set_flag(F_TWO_STEP, true);
        let sync = rc::encode(&rc::Msg::new(h, Body::Sync { origin: Ts::default() }));
        if !(is_slave && a.pid == parent) {
            out.push(("sync-on-general-interface".into(), sync, false));
        }
    }
    // management / signaling are ignored
    out.push((
        "management".into(),
        rc::encode(&rc::Msg::new(a.hdr(1), Body::Management { target: own.clone(), starting_hops: 1, hops: 1, action: 0, reserved: 0 })),
        false,
    ));
    out.push(("signaling".into(), rc::encode(&rc::Msg::new(a.hdr(1), Body::Signaling { target: own.clone() })), false));
    out
}

impl Monitor for NoiseMon {
    type St = ();
    fn post(&self, _st: &mut (), run: &mut Run<'_>, s: &Step, report: Option<&mut Vec<Violation>>) {
        let Some(out) = report else { return };
        if s.panic.is_some() {
            return;
        }
        for p in 0..run.n_ports() {
            for (label, bytes, on_event) in noise_frames(run, p) {
                let before = run.key();
                let draws: Vec<u64> = run.node.rngs.iter().map(|r| r.draws.get()).collect();
                let st = run.apply(&Ev::Raw(p, hex(&bytes), on_event));
                if st.panic.is_some() {
                    run.dead = true;
                    return; // C03's business; the run cannot continue
                }
                let n_acts: usize = st.acts.iter().map(|(_, a)| a.len()).sum();
                let draws2: Vec<u64> = run.node.rngs.iter().map(|r| r.draws.get()).collect();
                let after = run.key();
                let mut why = vec![];
                if n_acts != 0 {
                    why.push(format!("actions {:?}", st.acts.iter().flat_map(|(_, a)| a.iter().map(|i| i.kind)).collect::<Vec<_>>()));
                }
                if !st.clock_cmds.is_empty() {
                    why.push(format!("clock commands {:?}", st.clock_cmds));
                }
                if !st.filter_calls.is_empty() {
                    why.push(format!("filter calls {}", st.filter_calls.len()));
                }
                if draws != draws2 {
                    why.push("rng drawn".into());
                }
                if before != after {
                    why.push(format!("state changed: {}", first_diff(&before, &after)));
                }
                if !why.is_empty() {
                    let class: String = label.trim_end_matches(|c: char| c == '-' || c.is_ascii_digit()).to_string();
                    out.push(Violation {
                        signature: format!("noise-has-effect:{class}:{}", state_name(st.before[p])),
                        message: format!("noise frame {label} ({}) on port {} in state {}: {}", hex(&bytes), p + 1, state_name(st.before[p]), why.join("; ")),
                        replay: json!(null),
                    });
                    return; // later probes would start from a tainted state
                }
            }
        }
    }
}

fn first_diff(a: &str, b: &str) -> String {
    let i = a.bytes().zip(b.bytes()).position(|(x, y)| x != y).unwrap_or(a.len().min(b.len()));
    let lo = i.saturating_sub(60);
    format!("...{} | ...{}", &a[lo..(i + 40).min(a.len())], &b[lo..(i + 40).min(b.len())])
}

pub fn defs() -> Vec<WorldDef> {
    let slave_seed = vec![Ev::Ann(0, 0), Ev::Ann(0, 0), Ev::Bmca];
    vec![
        WorldDef { name: "1p-e2e", ports: vec![(false, false)], slave_only: false, seed: vec![], obedient: false, rich: true, depth: (4, 6) },
        WorldDef { name: "1p-e2e-slave-seed", ports: vec![(false, false)], slave_only: false, seed: slave_seed.clone(), obedient: false, rich: true, depth: (3, 5) },
        WorldDef { name: "1p-p2p", ports: vec![(true, false)], slave_only: false, seed: vec![], obedient: false, rich: false, depth: (3, 5) },
        WorldDef { name: "1p-p2p-slave-seed", ports: vec![(true, false)], slave_only: false, seed: slave_seed.clone(), obedient: false, rich: false, depth: (3, 5) },
        WorldDef { name: "1p-e2e-aml", ports: vec![(false, false)], slave_only: false, seed: vec![], obedient: false, rich: false, depth: (3, 5) },
        WorldDef { name: "2p-bc-seed", ports: vec![(false, false), (false, false)], slave_only: false, seed: vec![Ev::Ann(0, 0), Ev::Ann(0, 0), Ev::T(1, Timer::Receipt), Ev::Bmca], obedient: true, rich: false, depth: (2, 4) },
        // port 1 accepts only A, port 2 only B; port 1 is slave of A
        WorldDef { name: "2p-bc-split-aml", ports: vec![(false, false), (false, false)], slave_only: false, seed: vec![Ev::Ann(0, 0), Ev::Ann(0, 0), Ev::Bmca], obedient: true, rich: false, depth: (3, 4) },
        // peer 1 is port 2 of A's clock: slave of A.2 first, then A.1 takes over as parent
        WorldDef { name: "1p-e2e-sibling-parent", ports: vec![(false, false)], slave_only: false, seed: vec![Ev::Ann(0, 1), Ev::Ann(0, 1), Ev::Bmca, Ev::Ann(0, 0), Ev::Ann(0, 0), Ev::Bmca], obedient: false, rich: true, depth: (3, 4) },
        WorldDef { name: "2p-e2e+p2p", ports: vec![(false, false), (true, false)], slave_only: false, seed: vec![], obedient: true, rich: false, depth: (2, 5) },
    ]
}

pub fn systems(m: &NoiseMon) -> Vec<(WorldSys<'_, NoiseMon>, (usize, usize))> {
    let mut v = build("C07", m, defs(), false);
    for (s, _) in &mut v {
        if s.name.contains("split-aml") {
            let a = statime::config::ClockIdentity(s.cfg.peers[0].pid.clock);
            let b = statime::config::ClockIdentity(s.cfg.peers[1].pid.clock);
            s.cfg.node.ports[0].aml = Some(vec![a]);
            s.cfg.node.ports[1].aml = Some(vec![b]);
            continue;
        }
        if s.name.contains("sibling-parent") {
            let mut sib = s.cfg.peers[0].clone();
            sib.pid.port = sib.pid.port.wrapping_add(1);
            s.cfg.peers[1] = sib;
            continue;
        }
        if s.name.contains("aml") {
            // acceptable master list: peers A, B and our own clock identity
            let list = vec![
                statime::config::ClockIdentity(s.cfg.peers[0].pid.clock),
                statime::config::ClockIdentity(s.cfg.peers[1].pid.clock),
            ];
            for p in &mut s.cfg.node.ports {
                p.aml = Some(list.clone());
            }
            let node = s.cfg.node.clone();
            s.cfg.peers[2] = own_clock_peer(&node, 1);
        }
    }
    v
}

pub fn run(tier: Tier) -> i32 {
    let mut rep = Reporter::new("C07", tier, "model_checking");
    let mon = NoiseMon;
    let built = systems(&mon);
    let depths: std::collections::HashMap<String, (usize, usize)> = built.iter().map(|(s, d)| (s.name.clone(), *d)).collect();
    let systems: Vec<_> = built.into_iter().map(|(s, _)| s).collect();
    explore_all(&mut rep, &systems, |s| tier.pick(depths[&s.name].0, depths[&s.name].1), tier.pick(12.0, 300.0));
    let mut sweep: Vec<_> = build("C07", &mon, crate::c08::sweep_defs(true), false).into_iter().map(|(s, _)| s).collect();
    if tier == Tier::Quick {
        // quick: every state is probed with ~100 frames, so only the one-port end-to-end layout
        // with single tokens and the two-port layout with all tokens, ordinary instances
        sweep.retain(|s| !s.name.contains("+so") && ((s.name.starts_with("sweep-1p-e2e") && s.name.matches('+').count() <= 2 && !s.name.contains("+aml+pt")) || (s.name.starts_with("sweep-2p-e2e") && s.name.contains("+aml+pt+iv+sdo+b100+bcpeers"))));
    }
    explore_more(&mut rep, "sweep", &sweep, tier.pick(2, 3), tier.pick(20.0, 120.0));
    rep.cover("noise_frame_classes", json!(32));
    rep.assume("one-step unwinding on the complete canonical state (all private fields of every port and of the instance state, host timers, rng draw count) implies trace equivalence because the code is deterministic");
    rep.finish()
}

pub fn replay(r: &serde_json::Value) {
    let mon = NoiseMon;
    let mut systems: Vec<_> = systems(&mon).into_iter().map(|(s, _)| s).collect();
    systems.extend(build("C07", &mon, crate::c08::sweep_defs(true), false).into_iter().map(|(s, _)| s));
    replay_world(&systems, r);
}
