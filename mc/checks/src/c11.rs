//! C11 — Announces advertise the instance's current view of the hierarchy.
//! (a) E3: parent Announce content lattice through a real boundary clock;
//! (b) E1: sequences of parent content changes, parent switches, parent loss and
//! quality changes on 2-3-port boundary clocks, with a monitor that compares every
//! emitted Announce with the data set getters, and the getters with what the
//! delivered Announces / the instance's own attributes prescribe.

use rayon::prelude::*;
use serde_json::json;
use simcore::harness::*;
use simcore::refcodec::{self as rc, AnnounceBody, Body, Pid};
use simcore::report::{Reporter, Tier, Violation};
use simcore::scen::*;
use simcore::world::*;

/// what an Announce says about the hierarchy
#[derive(Clone, Debug, PartialEq, Eq)]
pub struct View {
    pub gm: [u8; 8],
    pub q: (u8, u8, u16),
    pub p1: u8,
    pub p2: u8,
    pub steps: u16,
    pub utc: Option<i16>,
    pub leap61: bool,
    pub leap59: bool,
    pub ptp: bool,
    pub time_tr: bool,
    pub freq_tr: bool,
    pub source: u8,
}

/// the view carried by an Announce frame (reference-decoded).  `raw_utc`: keep the offset
/// even if the valid flag is clear (what goes on the wire)
fn view_of_frame(m: &rc::Msg) -> Option<(View, i16)> {
    let Body::Announce(a) = &m.body else { return None };
    let f = m.hdr.flags[1];
    Some((
        View {
            gm: a.gm_identity,
            q: (a.gm_class, a.gm_accuracy, a.gm_variance),
            p1: a.gm_priority1,
            p2: a.gm_priority2,
            steps: a.steps_removed,
            utc: if f & 0b100 != 0 { Some(a.utc_offset) } else { None },
            leap61: f & 1 != 0,
            leap59: f & 2 != 0,
            ptp: f & 8 != 0,
            time_tr: f & 16 != 0,
            freq_tr: f & 32 != 0,
            source: a.time_source,
        },
        a.utc_offset,
    ))
}

/// the view held in the data sets, read through the public getters
fn view_of_instance(run: &Run<'_>) -> View {
    let pd = run.node.inst.parent_ds();
    let tp = run.node.inst.time_properties_ds();
    let q = pd.grandmaster_clock_quality;
    use statime::config::LeapIndicator as L;
    View {
        gm: pd.grandmaster_identity.0,
        q: (q.clock_class, q.clock_accuracy.to_primitive(), q.offset_scaled_log_variance),
        p1: pd.grandmaster_priority_1,
        p2: pd.grandmaster_priority_2,
        steps: run.node.inst.current_ds(None).steps_removed,
        utc: tp.current_utc_offset,
        leap61: tp.leap_indicator == L::Leap61,
        leap59: tp.leap_indicator == L::Leap59,
        ptp: tp.ptp_timescale,
        time_tr: tp.time_traceable,
        freq_tr: tp.frequency_traceable,
        source: tp.time_source.to_primitive(),
    }
}

fn own_view(run: &Run<'_>) -> View {
    let d = run.node.inst.default_ds();
    let q = d.clock_quality;
    // the local clock's time properties as the instance was constructed with them
    let gnss = run.cfg.node.gnss_time;
    View {
        gm: d.clock_identity.0,
        q: (q.clock_class, q.clock_accuracy.to_primitive(), q.offset_scaled_log_variance),
        p1: d.priority_1,
        p2: d.priority_2,
        steps: 0,
        utc: if gnss { Some(37) } else { None },
        leap61: gnss,
        leap59: false,
        ptp: gnss,
        time_tr: gnss,
        freq_tr: gnss,
        source: if gnss { 0x20 } else { 0xa0 },
    }
}

/// normalise what the wire cannot express: leap59 wins over leap61; clockAccuracy octets
/// the library cannot represent (known finding of C04) are compared as delivered
fn norm(mut v: View) -> View {
    if v.leap59 {
        v.leap61 = false;
    }
    if simcore::refnames::accuracy_reserved(v.q.1) {
        v.q.1 = 0;
    }
    v
}

#[derive(Default)]
pub struct AnnSt {
    /// last Announce content delivered per (port, sender)
    last: Vec<(usize, Pid, View)>,
    /// something has happened that lets the data sets differ from the instance's own attributes:
    /// a port became slave, or the clock quality was changed (takes effect at the next BMCA run)
    touched: bool,
}

pub struct AnnMon;

impl Monitor for AnnMon {
    type St = AnnSt;

    fn pre(&self, st: &mut AnnSt, run: &mut Run<'_>, ev: &Ev, _judged: bool) {
        // remember the content of the Announce about to be delivered
        let (p, bytes) = match ev {
            Ev::Raw(p, h, false) => (*p, unhex(h)),
            Ev::Ann(p, k) => (*p, rc::encode(&run.peers[*k].announce_msg(run.peers[*k].announce_seq))),
            Ev::AnnDup(p, k) => (*p, rc::encode(&run.peers[*k].announce_msg(run.peers[*k].announce_seq.wrapping_sub(1)))),
            _ => return,
        };
        let Ok(m) = rc::decode(&bytes) else { return };
        if m.hdr.version != 2 || m.hdr.domain != run.cfg.node.domain || m.hdr.sdo() != run.cfg.node.sdo {
            return;
        }
        if let Some((v, _)) = view_of_frame(&m) {
            if v.steps >= 255 {
                return; // not a qualified Announce: never the basis of the data sets
            }
            st.last.retain(|(q, s, _)| !(*q == p && *s == m.hdr.source));
            st.last.push((p, m.hdr.source.clone(), v));
        }
    }

    fn post(&self, st: &mut AnnSt, run: &mut Run<'_>, s: &Step, report: Option<&mut Vec<Violation>>) {
        if s.panic.is_some() {
            return;
        }
        let mut local = vec![];
        let inst = norm(view_of_instance(run));
        // O1: every emitted Announce equals the data sets (as they are after the call, which
        // for a timer call are the ones it was built from)
        for (p, acts) in &s.acts {
            for a in acts {
                let Some(Ok(m)) = &a.decoded else { continue };
                let Some((v, raw_utc)) = view_of_frame(m) else { continue };
                let v = norm(v);
                if v != inst {
                    local.push(Violation {
                        signature: format!("announce-differs-from-datasets:{}", first_diff(&v, &inst)),
                        message: format!("port {} announced {:?}, the data sets say {:?}", p + 1, v, inst),
                        replay: json!(null),
                    });
                }
                if v.utc.is_none() && raw_utc != 0 {
                    local.push(Violation { signature: "announce-utc-offset-without-valid-flag".into(), message: format!("{raw_utc}"), replay: json!(null) });
                }
                if m.hdr.flags[0] & !0 != 0 && m.hdr.flags[0] != 0 {
                    local.push(Violation { signature: "announce-flag-octet0".into(), message: format!("{:#x}", m.hdr.flags[0]), replay: json!(null) });
                }
            }
        }
        // O0: from construction until the first port becomes slave or the quality is changed, the
        // instance is its own grandmaster and its data sets are its own attributes
        if matches!(s.ev, Ev::Quality(_)) || s.after.iter().any(|x| matches!(x, PS::Slave)) {
            st.touched = true;
        }
        if !st.touched {
            let want = norm(own_view(run));
            if want != inst {
                local.push(Violation {
                    signature: format!("initial-datasets-not-own-attributes:{}", first_diff(&inst, &want)),
                    message: format!("no port has been slave and the quality was never changed, but the data sets say {:?}; own attributes are {:?}", inst, want),
                    replay: json!(null),
                });
            }
        }
        // O2/O3: the data sets equal what the hierarchy prescribes
        let slave: Vec<usize> = (0..run.n_ports()).filter(|p| matches!(s.after[*p], PS::Slave)).collect();
        let any_master = s.after.iter().any(|x| matches!(x, PS::Master));
        let pd = run.node.inst.parent_ds().parent_port_identity;
        let parent = Pid { clock: pd.clock_identity.0, port: pd.port_number };
        let is_announce_from_parent = |st: &AnnSt| -> Option<View> {
            // the frame delivered in this step came from the current parent on the slave port
            let p = s.port?;
            if !matches!(s.before[p], PS::Slave) || !matches!(s.after[p], PS::Slave) {
                return None;
            }
            st.last.iter().find(|(q, src, _)| *q == p && *src == parent).map(|x| x.2.clone())
        };
        match s.ev {
            Ev::Bmca => {
                if let Some(&p) = slave.first() {
                    match st.last.iter().find(|(q, src, _)| *q == p && *src == parent) {
                        None => local.push(Violation {
                            signature: "parent-never-announced".into(),
                            message: format!("port {} is slave to {:?}, from which no Announce was delivered on that port", p + 1, parent),
                            replay: json!(null),
                        }),
                        Some((_, _, v)) => {
                            let mut want = norm(v.clone());
                            want.steps += 1;
                            if want != inst {
                                local.push(Violation {
                                    signature: format!("datasets-after-bmca-differ-from-parent-announce:{}", first_diff(&inst, &want)),
                                    message: format!("after BMCA the data sets say {:?}; the parent's last Announce prescribes {:?}", inst, want),
                                    replay: json!(null),
                                });
                            }
                        }
                    }
                } else if any_master {
                    let want = norm(own_view(run));
                    if want != inst {
                        local.push(Violation {
                            signature: format!("grandmaster-datasets-not-own-attributes:{}", first_diff(&inst, &want)),
                            message: format!("no port is slave after BMCA (the instance is grandmaster) but the data sets say {:?}; own attributes are {:?}", inst, want),
                            replay: json!(null),
                        });
                    }
                }
            }
            Ev::Raw(_, _, false) | Ev::Ann(..) | Ev::AnnDup(..) => {
                if let Some(v) = is_announce_from_parent(st) {
                    // an Announce from the current parent is applied at once (unless its path
                    // trace contains us, which these worlds do not produce)
                    let mut want = norm(v);
                    want.steps += 1;
                    if want != inst {
                        local.push(Violation {
                            signature: format!("parent-announce-not-applied-at-once:{}", first_diff(&inst, &want)),
                            message: format!("an Announce from the parent was delivered; data sets say {:?}, the Announce prescribes {:?}", inst, want),
                            replay: json!(null),
                        });
                    }
                }
            }
            _ => {}
        }
        if let Some(out) = report {
            out.extend(local);
        }
    }

    fn key(&self, st: &AnnSt) -> String {
        format!("{:?}{}", st.last, st.touched)
    }
}

fn first_diff(a: &View, b: &View) -> &'static str {
    if a.gm != b.gm {
        "grandmasterIdentity"
    } else if a.q != b.q {
        "grandmasterClockQuality"
    } else if a.p1 != b.p1 {
        "grandmasterPriority1"
    } else if a.p2 != b.p2 {
        "grandmasterPriority2"
    } else if a.steps != b.steps {
        "stepsRemoved"
    } else if a.utc != b.utc {
        "currentUtcOffset"
    } else if a.source != b.source {
        "timeSource"
    } else {
        "flags"
    }
}

static MON: AnnMon = AnnMon;

fn variant(base: &Peer, f: impl FnOnce(&mut Peer)) -> Peer {
    let mut p = base.clone();
    f(&mut p);
    p
}

pub fn systems() -> Vec<(WorldSys<'static, AnnMon>, (usize, usize))> {
    let mut out = vec![];
    for (name, n_ports, depth) in [("bc-2p", 2usize, (7usize, 9usize)), ("bc-3p", 3, (5, 6))] {
        let mut node = NodeSpec::default();
        node.ports = (0..n_ports).map(|_| PortSpec::default()).collect();
        let mut cfg = WorldCfg { node: node.clone(), share_seq_by_identity: true, ..Default::default() };
        // peer 0: parent P; peer 1: P with changed contents (same identity); peer 2: P naming another
        // grandmaster; peer 3: a better master (appears on another port); peer 4: a worse one
        let p = variant(&Peer::gm(1, 10), |p| {
            p.steps_removed = 2;
            p.gm_identity = [0x77, 0, 0, 0, 0, 0, 0, 1];
            p.flags = [0, 0b0010_1100];
            p.utc_offset = 37;
            p.time_source = 0x20;
        });
        let p_changed = variant(&p, |q| {
            q.class = 7;
            q.accuracy = 0x21;
            q.variance = 0x1234;
            q.priority2 = 9;
            q.steps_removed = 3;
            q.flags = [0, 0b0001_0001];
            q.utc_offset = 36;
            q.time_source = 0x40;
        });
        let p_other_gm = variant(&p, |q| {
            q.gm_identity = [0x78, 0, 0, 0, 0, 0, 0, 2];
            q.priority1 = 9;
            q.steps_removed = 4;
            q.flags = [0, 0b0000_0110];
            q.utc_offset = 35;
            q.time_source = 0x10;
        });
        let better = variant(&Peer::gm(3, 1), |q| q.flags = [0, 0b0011_1000]);
        let worse = Peer::gm(4, 250);
        cfg.peers = vec![p, p_changed, p_other_gm, better, worse];
        cfg.qualities = vec![(6, 0x21, 0x4e5d), (200, 0x25, 0x1111)];
        let mut alpha = Alpha::new().add(Ev::Bmca).add(Ev::Quality(0)).add(Ev::Quality(1));
        alpha = alpha.add(Ev::Ann(0, 0)).add(Ev::Ann(0, 1)).add(Ev::Ann(0, 2)).add(Ev::T(0, Timer::Receipt)).add(Ev::T(0, Timer::Announce));
        for q in 1..n_ports {
            alpha = alpha.add(Ev::T(q, Timer::Announce)).add(Ev::Ann(q, 3)).add(Ev::Ann(q, 4)).add(Ev::T(q, Timer::Receipt));
        }
        let mut seed = vec![Ev::Ann(0, 0), Ev::Ann(0, 0)];
        for q in 1..n_ports {
            seed.push(Ev::T(q, Timer::Receipt));
        }
        seed.push(Ev::Bmca);
        out.push((WorldSys { property: "C11", name: name.to_string(), cfg, seed, alphabet: alpha.0, obedient: false, monitor: &MON, macros: vec![] }, depth));
        // a grandmaster from the start (quality changes, take-over by and from a foreign master)
        if n_ports == 2 {
            let mut cfg2 = WorldCfg { node: node.clone(), ..Default::default() };
            cfg2.peers = vec![Peer::gm(3, 1), Peer::gm(4, 250)];
            cfg2.qualities = vec![(6, 0x21, 0x4e5d), (200, 0x25, 0x1111)];
            let alpha = Alpha::new()
                .add(Ev::Bmca)
                .add(Ev::Quality(0))
                .add(Ev::Quality(1))
                .add(Ev::Ann(0, 0))
                .add(Ev::Ann(1, 1))
                .add(Ev::T(0, Timer::Announce))
                .add(Ev::T(1, Timer::Announce))
                .add(Ev::T(0, Timer::Receipt));
            // the same instance fresh from construction, with a quality and priorities of its own
            {
                let mut cfg3 = WorldCfg { node: node.clone(), ..Default::default() };
                cfg3.node.class = 6;
                cfg3.node.accuracy = 0x21;
                cfg3.node.variance = 0x4e5d;
                cfg3.node.priority_1 = 90;
                cfg3.node.priority_2 = 91;
                cfg3.node.gnss_time = true;
                cfg3.peers = vec![Peer::gm(3, 1), Peer::gm(4, 250)];
                cfg3.qualities = vec![(7, 0x22, 0x4e5e), (200, 0x25, 0x1111)];
                let alpha = Alpha::new()
                    .add(Ev::Bmca)
                    .add(Ev::Quality(0))
                    .add(Ev::Ann(0, 0))
                    .add(Ev::Ann(1, 1))
                    .add(Ev::T(0, Timer::Announce))
                    .add(Ev::T(1, Timer::Announce))
                    .add(Ev::T(0, Timer::Receipt))
                    .add(Ev::T(1, Timer::Receipt));
                out.push((WorldSys { property: "C11", name: "gm-2p-fresh".into(), cfg: cfg3, seed: vec![], alphabet: alpha.0, obedient: false, monitor: &MON, macros: vec![] }, (5, 7)));
            }
            out.push((
                WorldSys {
                    property: "C11",
                    name: "gm-2p".into(),
                    cfg: cfg2,
                    seed: vec![Ev::T(0, Timer::Receipt), Ev::T(1, Timer::Receipt), Ev::Bmca],
                    alphabet: alpha.0,
                    obedient: false,
                    monitor: &MON,
                    macros: vec![],
                },
                (6, 8),
            ));
        }
    }
    out
}

/// E3: parent Announce contents through a boundary clock into the Announce of its master port
fn lattice(tier: Tier) -> (u64, u64, Vec<Violation>) {
    let mut contents: Vec<Peer> = vec![];
    let base = variant(&Peer::gm(1, 10), |p| p.gm_identity = [0x77, 0, 0, 0, 0, 0, 0, 1]);
    // every combination of the six time-property flags x UTC offsets
    for flags in 0..64u8 {
        for utc in [i16::MIN, -1, 0, 37, i16::MAX] {
            contents.push(variant(&base, |p| {
                p.flags = [0, flags];
                p.utc_offset = utc;
            }));
        }
    }
    // every timeSource octet
    for ts in 0..=255u8 {
        contents.push(variant(&base, |p| p.time_source = ts));
    }
    // quality / priority lattice and stepsRemoved
    for class in [0u8, 6, 7, 127, 128, 248, 255] {
        for acc in [0x17u8, 0x20, 0x31, 0x80, 0xfd, 0xfe] {
            for var in [0u16, 1, 0x8000, 0xffff] {
                for steps in [0u16, 1, 253] {
                    contents.push(variant(&base, |p| {
                        p.class = class;
                        p.accuracy = acc;
                        p.variance = var;
                        p.steps_removed = steps;
                    }));
                }
            }
        }
    }
    for v in [0u8, 1, 9, 254] {
        contents.push(variant(&base, |p| p.priority1 = v));
        contents.push(variant(&base, |p| p.priority2 = v));
        contents.push(variant(&base, |p| p.gm_identity = [v; 8]));
    }
    contents.push(variant(&base, |p| p.steps_removed = 254));
    if tier == Tier::Quick {
        // keep every flag combination and every timeSource; thin the quality product
        let keep: Vec<Peer> = contents.iter().enumerate().filter(|(i, _)| *i < 576 || i % 3 == 0).map(|(_, p)| p.clone()).collect();
        contents = keep;
    }
    let changed = variant(&base, |p| {
        p.class = 100;
        p.priority2 = 1;
        p.flags = [0, 0b0010_0010];
        p.time_source = 0x60;
        p.steps_removed = 7;
    });
    let res: Vec<Vec<Violation>> = contents
        .par_iter()
        .map(|c| {
            let mut node = NodeSpec::default();
            node.ports = vec![PortSpec::default(), PortSpec::default()];
            let mut cfg = WorldCfg { node, share_seq_by_identity: true, ..Default::default() };
            let c2 = changed.clone();
            cfg.peers = vec![c.clone(), c2];
            let sys = WorldSys {
                property: "C11",
                name: "lattice".into(),
                cfg,
                seed: vec![],
                alphabet: vec![],
                obedient: false,
                monitor: &MON,
                macros: vec![],
            };
            // become slave to P, announce on the master port, P changes its contents, announce again
            let hist = vec![Ev::Ann(0, 0), Ev::Ann(0, 0), Ev::T(1, Timer::Receipt), Ev::Bmca, Ev::T(1, Timer::Announce), Ev::Ann(0, 1), Ev::T(1, Timer::Announce), Ev::Ann(0, 0), Ev::T(1, Timer::Announce)];
            let mut o = sys.run_all_judged(&hist).violations;
            // end to end (and against vacuity): a parent that outranks the instance IS followed, so
            // the three Announces of the master port carry P's, the changed and again P's content
            // with stepsRemoved + 1
            if c.priority1 < 128 {
                struct O(Vec<Option<View>>);
                impl Observer for O {
                    fn post(&mut self, _r: &mut Run<'_>, s: &Step) {
                        if s.ev == Ev::T(1, Timer::Announce) {
                            let mut got = None;
                            for (_, a) in &s.acts {
                                for i in a {
                                    if let Some(Ok(m)) = &i.decoded {
                                        got = view_of_frame(m).map(|x| norm(x.0));
                                    }
                                }
                            }
                            self.0.push(got);
                        }
                    }
                }
                let mut obs = O(vec![]);
                sys.cfg.exec(&hist, &mut obs, |_| ());
                let want_of = |p: &Peer| -> Option<View> {
                    let m = p.announce_msg(0);
                    view_of_frame(&m).map(|x| {
                        let mut v = x.0;
                        v.steps += 1;
                        norm(v)
                    })
                };
                let wants = [want_of(c), want_of(&changed), want_of(c)];
                for (i, w) in wants.iter().enumerate() {
                    let g = obs.0.get(i).cloned().flatten();
                    if g != *w {
                        let field = match (&g, w) {
                            (Some(a), Some(b)) => first_diff(a, b),
                            _ => "no-announce",
                        };
                        o.push(Violation {
                            signature: format!("announce-differs-from-parent-content:{field}"),
                            message: format!("Announce {} of the master port after the parent announced {:?}: got {:?}, want {:?}", i + 1, if i == 1 { &changed } else { c }, g, w),
                            replay: json!(null),
                        });
                        break;
                    }
                }
            }
            for v in &mut o {
                v.replay = json!({"kind": "lattice", "peer": format!("{:?}", c)});
            }
            o
        })
        .collect();
    let mut n = res.len() as u64;
    let mut v = vec![];
    for r in res {
        v.extend(r);
    }
    // a parent that announces much faster than the port's own interval (G.8275.1 masters do):
    // 9..12 Announces between two BMCA runs fill the foreign master record; the parent then changes
    // its content, the BMCA runs, and the master port announces
    for burst in [7usize, 8, 9, 10, 12, 17] {
        n += 1;
        let mut node = NodeSpec::default();
        node.ports = vec![PortSpec::default(), PortSpec::default()];
        let mut cfg = WorldCfg { node, share_seq_by_identity: true, ..Default::default() };
        cfg.peers = vec![base.clone(), changed.clone()];
        let sys = WorldSys { property: "C11", name: "lattice".into(), cfg, seed: vec![], alphabet: vec![], obedient: false, monitor: &MON, macros: vec![] };
        let mut hist = vec![Ev::Ann(0, 0), Ev::Ann(0, 0), Ev::T(1, Timer::Receipt), Ev::Bmca];
        for _ in 0..burst {
            hist.push(Ev::Ann(0, 0));
        }
        hist.extend([Ev::Ann(0, 1), Ev::Bmca, Ev::T(1, Timer::Announce), Ev::Ann(0, 1), Ev::Ann(0, 0), Ev::Bmca, Ev::T(1, Timer::Announce)]);
        let mut o = sys.run_all_judged(&hist).violations;
        for x in &mut o {
            x.replay = json!({"kind": "lattice-burst", "burst": burst});
        }
        v.extend(o);
    }
    (n, n, v)
}

pub fn run(tier: Tier) -> i32 {
    let mut rep = Reporter::new("C11", tier, "model_checking");
    let built = systems();
    let depths: std::collections::HashMap<String, (usize, usize)> = built.iter().map(|(s, d)| (s.name.clone(), *d)).collect();
    let systems: Vec<_> = built.into_iter().map(|(s, _)| s).collect();
    explore_all(&mut rep, &systems, |s| tier.pick(depths[&s.name].0, depths[&s.name].1), tier.pick(12.0, 400.0));
    let (n, _, v) = lattice(tier);
    rep.violations(v);
    rep.cover("content_lattice_cases", json!(n));
    rep.assume("data sets change at two points only: an Announce from the current parent on the slave port (at once) and a BMCA run; between an announce receipt timeout and the next BMCA run the previous parent's data stay in the data sets (IEEE 1588 9.2.6.12 would update them at the timeout; not judged here, the Announce still equals the data sets)");
    rep.assume("leap59 and leap61 both set decode as leap59; reserved clockAccuracy octets compare as delivered (C04 known finding)");
    rep.finish()
}

pub fn replay(r: &serde_json::Value) {
    if r["kind"] == "lattice" {
        println!("lattice case {}: rerun ./check C11 quick", r["peer"]);
        return;
    }
    let systems: Vec<_> = systems().into_iter().map(|(s, _)| s).collect();
    replay_world(&systems, r);
}
