//! C17 — shared instance state is never locked re-entrantly or seen half-updated.
//! (a) nested-acquisition monitor (`TrackLock`) on the E1 explorations of the C08
//!     and C11 worlds and on a boundary clock that forwards TLVs;
//! (b) loom: all thread interleavings up to a preemption bound of concurrently
//!     driven ports, observers and BMCA runs over a loom-backed lock (child process).

use serde_json::json;
use simcore::harness::hex;
use simcore::refcodec as rc;
use simcore::report::{Reporter, Tier, Violation};
use simcore::scen::Peer;
use simcore::world::*;

use crate::c08::{build, world_defs};

pub struct LockMon;
impl Monitor for LockMon {
    type St = ();
    fn post(&self, _st: &mut (), _run: &mut Run<'_>, s: &Step, report: Option<&mut Vec<Violation>>) {
        let Some(out) = report else { return };
        let (nested, max_depth, _acq) = s.lock;
        if nested > 0 || max_depth > 1 {
            out.push(Violation {
                signature: format!("nested-lock-acquisition:{}", crate::c03::ev_kind(&s.ev)),
                message: format!("{:?} requested the instance-state lock {} time(s) while already holding it (depth {})", s.ev, nested, max_depth),
                replay: json!(null),
            });
        }
        if let Some(p) = &s.panic {
            if p.message.starts_with("TrackLock") {
                out.push(Violation {
                    signature: format!("lock-reborrow-panic:{}", crate::c03::ev_kind(&s.ev)),
                    message: format!("{:?}: {}", s.ev, p.message),
                    replay: json!(null),
                });
            }
        }
    }
}

static MON: LockMon = LockMon;

fn tlv_world() -> WorldSys<'static, LockMon> {
    // boundary clock, path trace on, TLVs of the parent queued for the master port
    let mut node = simcore::harness::NodeSpec::default();
    node.path_trace = true;
    node.ports = vec![Default::default(), Default::default()];
    let mut cfg = WorldCfg { node, share_seq_by_identity: true, ..Default::default() };
    let parent = Peer::gm(1, 1);
    let other = Peer::gm(2, 2);
    cfg.peers = vec![parent.clone(), other.clone()];
    let tl = |peer: &Peer, seq: u16, tlvs: Vec<rc::Tlv>| Ev::Raw(0, hex(&rc::encode(&peer.announce_msg(seq).with_tlvs(tlvs))), false);
    let path = rc::Tlv { typ: 0x0008, value: vec![0xbb; 16] };
    let prop = rc::Tlv { typ: 0x4000, value: vec![1; 20] };
    let alphabet = vec![
        tl(&parent, 600, vec![path.clone(), prop.clone()]),
        tl(&parent, 601, vec![prop.clone(), rc::Tlv { typ: 0x4001, value: vec![2; 8] }]),
        tl(&other, 700, vec![prop.clone()]),
        Ev::T(1, Timer::Announce),
        Ev::T(0, Timer::Announce),
        Ev::T(1, Timer::Sync),
        Ev::TxTs(1),
        Ev::Bmca,
        Ev::T(0, Timer::Receipt),
        Ev::T(0, Timer::Delay),
        Ev::SlaveOnly(true),
        Ev::Quality(0),
        Ev::Observe,
    ];
    WorldSys {
        property: "C17",
        name: "bc-pathtrace-forwarding".into(),
        cfg,
        seed: vec![Ev::Ann(0, 0), Ev::Ann(0, 0), Ev::T(1, Timer::Receipt), Ev::Bmca],
        alphabet,
        obedient: false,
        monitor: &MON,
        macros: vec![],
    }
}

fn systems() -> (Vec<WorldSys<'static, LockMon>>, std::collections::HashMap<String, (usize, usize)>) {
    let built = build("C17", &MON, world_defs(), true);
    let mut depths: std::collections::HashMap<String, (usize, usize)> = built.iter().map(|(s, d)| (s.name.clone(), *d)).collect();
    let mut systems: Vec<_> = built.into_iter().map(|(s, _)| s).collect();
    for s in &mut systems {
        s.obedient = false;
        // the observer's getters (with the slave port's contribution) between any two host calls
        s.alphabet.push(Ev::Observe);
    }
    let t = tlv_world();
    depths.insert(t.name.clone(), (5, 7));
    systems.push(t);
    (systems, depths)
}

pub fn run(tier: Tier) -> i32 {
    let mut rep = Reporter::new("C17", tier, "model_checking");
    let (systems, depths) = systems();
    explore_all(&mut rep, &systems, |s| tier.pick(depths[&s.name].0.saturating_sub(1).max(3), depths[&s.name].1), tier.pick(8.0, 300.0));
    let sweep: Vec<_> = build("C17", &MON, crate::c08::sweep_defs(tier == Tier::Quick), true)
        .into_iter()
        .map(|(mut s, _)| {
            s.alphabet.push(Ev::Observe);
            s
        })
        .collect();
    explore_more(&mut rep, "sweep", &sweep, tier.pick(3, 4), tier.pick(2.0, 30.0));
    // (b) loom
    let bound = tier.pick(3, 6);
    // one process per scenario: a deadlock found by loom ends in a non-unwinding panic
    let mut all = vec![];
    let mut iterations = 0;
    for scenario in ["updates", "bmca", "takeover", "regain"] {
        let out = match std::process::Command::new("/verif/target/loom/release/loomck").arg(bound.to_string()).arg(scenario).output() {
            Ok(o) => o,
            Err(e) => {
                eprintln!("machinery error: cannot run loomck: {e}");
                std::process::exit(2);
            }
        };
        let text = String::from_utf8_lossy(&out.stdout).to_string();
        let err = String::from_utf8_lossy(&out.stderr).to_string();
        let Some(line) = text.lines().find_map(|l| l.strip_prefix("LOOMRESULT ")) else {
            // loom reports a deadlock (every thread blocked on the instance-state lock) by a panic
            // that cannot be caught: that is a verdict, anything else is a machinery failure
            if let Some(d) = err.lines().find(|l| l.starts_with("deadlock; threads")) {
                rep.violation(Violation {
                    signature: format!("loom/{scenario}/deadlock"),
                    message: format!("loom scenario {scenario} (preemption bound {bound}): an interleaving blocks every thread on the instance-state lock - {d}"),
                    replay: json!({"kind": "loom", "scenario": scenario, "bound": bound}),
                });
                continue;
            }
            eprintln!("machinery error: loomck produced no result for scenario {scenario}: {}\n{}", text, err);
            std::process::exit(2);
        };
        let v: serde_json::Value = serde_json::from_str(line).expect("LOOMRESULT json");
        for s in v.as_array().unwrap() {
            iterations += s["iterations"].as_u64().unwrap_or(0);
            for x in s["violations"].as_array().unwrap() {
                let msg = x.as_str().unwrap_or("").to_string();
                let sig = msg.split(':').next().unwrap_or("").to_string();
                rep.violation(Violation {
                    signature: format!("loom/{}/{}", s["scenario"].as_str().unwrap_or(""), sig),
                    message: format!("loom scenario {} (preemption bound {}): {}", s["scenario"], bound, msg),
                    replay: json!({"kind": "loom", "scenario": s["scenario"], "bound": bound}),
                });
            }
            if s["iterations"].as_u64().unwrap_or(0) == 0 && s["violations"].as_array().unwrap().is_empty() {
                eprintln!("machinery error: loom scenario {} explored nothing", s["scenario"]);
                std::process::exit(2);
            }
            all.push(s.clone());
        }
    }
    let v = serde_json::Value::Array(all);
    rep.cover("loom", v.clone());
    rep.cover("loom_iterations", json!(iterations));
    rep.assume("loom explores all interleavings at lock operations up to the preemption bound; all sharing between ports goes through the instance-state lock (the relaxed AtomicI8 holding the BMCA interval is not modelled and not part of the property)");
    rep.assume("every snapshot (each getter result, each Announce built under one lock acquisition) must equal the value after some prefix of the sequential update sequence");
    rep.finish()
}

pub fn replay(r: &serde_json::Value) {
    if r["kind"] == "loom" {
        let st = std::process::Command::new("/verif/target/loom/release/loomck").arg(r["bound"].to_string()).status();
        println!("loomck exited with {:?}; rerun `./check C17 quick` for the verdict", st);
        return;
    }
    let (mut systems, _) = systems();
    systems.extend(build("C17", &MON, crate::c08::sweep_defs(false), true).into_iter().map(|(s, _)| s));
    replay_world(&systems, r);
}
