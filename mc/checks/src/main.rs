//! `mc <ID> quick|thorough` runs the check of one property; `mc <ID> --replay <file>`
//! re-executes one recorded case without any explorer.

mod c04;

use simcore::report::{install_quiet_panic_hook, Tier};

fn main() {
    let args: Vec<String> = std::env::args().collect();
    if args.len() < 3 {
        eprintln!("usage: mc <ID> quick|thorough | mc <ID> --replay <file>");
        std::process::exit(2);
    }
    install_quiet_panic_hook();
    let id = args[1].as_str();
    if args[2] == "--replay" {
        let text = std::fs::read_to_string(&args[3]).expect("read replay file");
        let v: serde_json::Value = serde_json::from_str(&text).expect("parse replay file");
        let r = &v["replay"];
        match id {
            "C04" => c04::replay(r),
            _ => {
                eprintln!("no replay for {id}");
                std::process::exit(2)
            }
        }
        return;
    }
    let tier = Tier::from_args(Some(args[2].as_str()));
    let code = match id {
        "C04" => c04::run(tier),
        _ => {
            eprintln!("unknown check {id}");
            2
        }
    };
    std::process::exit(code);
}
