//! `mc <ID> quick|thorough` runs the check of one property; `mc <ID> --replay <file>`
//! re-executes one recorded case without any explorer.

mod c01;
mod c02;
mod c03;
mod c04;
mod c05;
mod c06;
mod c07;
mod c08;
mod c09;
mod c10;
mod c11;
mod c12;
mod c13;
mod c14;
mod c15;
mod c16;
mod c17;
mod c18;
mod c19;
mod c20;
mod exporter;

use simcore::report::{install_quiet_panic_hook, Tier};

fn main() {
    let args: Vec<String> = std::env::args().collect();
    if args.len() < 3 {
        eprintln!("usage: mc <ID> quick|thorough | mc <ID> --replay <file>");
        std::process::exit(2);
    }
    install_quiet_panic_hook();
    let id = args[1].as_str();
    if args[2] == "--replay" {
        let text = std::fs::read_to_string(&args[3]).expect("read replay file");
        let v: serde_json::Value = serde_json::from_str(&text).expect("parse replay file");
        let mut r = &v["replay"];
        if r["flavour"] == "unchecked" {
            if cfg!(debug_assertions) {
                // the case was found in the plain-release flavour: replay it there
                let st = std::process::Command::new("/verif/target/mc/unchecked/mc").args(&args[1..]).status().expect("run unchecked mc");
                std::process::exit(st.code().unwrap_or(2));
            }
            r = &r["case"];
        }
        match id {
            "C01" => c01::replay(r),
            "C02" => c02::replay(r),
            "C03" => c03::replay(r),
            "C04" => c04::replay(r),
            "C05" => c05::replay(r),
            "C06" => c06::replay(r),
            "C09" => c09::replay(r),
            "C10" => c10::replay(r),
            "C11" => c11::replay(r),
            "C12" => c12::replay(r),
            "C13" => c13::replay(r),
            "C14" => c14::replay(r),
            "C15" => c15::replay(r),
            "C07" => c07::replay(r),
            "C08" => c08::replay(r),
            "C16" => c16::replay(r),
            "C17" => c17::replay(r),
            "C18" => c18::replay(r),
            "C19" => c19::replay(r),
            "C20" => c20::replay(r),
            _ => {
                eprintln!("no replay for {id}");
                std::process::exit(2)
            }
        }
        return;
    }
    let tier = Tier::from_args(Some(args[2].as_str()));
    let code = match id {
        "C01" => c01::run(tier),
        "C02" => c02::run(tier),
        "C03" => c03::run(tier),
        "C04" => c04::run(tier),
        "C05" => c05::run(tier),
        "C06" => c06::run(tier),
        "C09" => c09::run(tier),
        "C10" => c10::run(tier),
        "C11" => c11::run(tier),
        "C12" => c12::run(tier),
        "C13" => c13::run(tier),
        "C14" => c14::run(tier),
        "C15" => c15::run(tier),
        "C07" => c07::run(tier),
        "C08" => c08::run(tier),
        "C16" => c16::run(tier),
        "C17" => c17::run(tier),
        "C18" => c18::run(tier),
        "C19" => c19::run(tier),
        "C20" => c20::run(tier),
        _ => {
            eprintln!("unknown check {id}");
            2
        }
    };
    std::process::exit(code);
}
