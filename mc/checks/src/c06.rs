//! C06 — foreign masters qualify only by sustained Announces and expire when
//! silent.  E1 over `World` with a canonical state in which stored sequence ids
//! are translated by the sender's counter (the transition function only uses
//! `wrapping_sub` of two ids of one sender), so the search closes.  The oracle is
//! evaluated from the arrival history alone.

use serde_json::json;
use simcore::harness::*;
use simcore::refcodec::Pid;
use simcore::report::{Reporter, Tier, Violation};
use simcore::scen::Peer;
use simcore::world::*;

use crate::c08::own_clock_peer;

/// per master: what arrived in each of the last intervals (index 0 = current)
#[derive(Clone, Default, Debug)]
pub struct Hist {
    /// distinct sequence ids of countable arrivals (stepsRemoved < 255), per interval
    distinct: std::collections::VecDeque<Vec<u16>>,
    /// was there a *fresh* countable arrival (id newer than every earlier one) in the interval
    fresh: std::collections::VecDeque<bool>,
    /// any arrival at all (of any kind) per interval
    any: std::collections::VecDeque<bool>,
    /// number of countable frames delivered per interval (duplicates included)
    deliveries: std::collections::VecDeque<u32>,
    newest: Option<u16>,
}

#[derive(Default)]
pub struct C06St {
    h: Vec<Hist>,
    bmcas: u32,
}

pub struct QualMon {
    /// indices of the peers that carry the instance's own clock identity
    pub own_peer: Vec<usize>,
    /// ranking of peers (lower = better); None for peers worse than the instance itself
    pub rank: Vec<Option<u32>>,
}

const KEEP: usize = 6;

fn newer(a: u16, than: u16) -> bool {
    let d = a.wrapping_sub(than);
    d != 0 && d < 0x8000
}

impl QualMon {
    fn note_arrival(&self, st: &mut C06St, k: usize, seq: u16, countable: bool) {
        let h = &mut st.h[k];
        *h.any.front_mut().unwrap() = true;
        if countable {
            *h.deliveries.front_mut().unwrap() += 1;
            let cur = h.distinct.front_mut().unwrap();
            if !cur.contains(&seq) {
                cur.push(seq);
            }
            if h.newest.map(|n| newer(seq, n)).unwrap_or(true) {
                h.newest = Some(seq);
                *h.fresh.front_mut().unwrap() = true;
            }
        }
    }
}

impl Monitor for QualMon {
    type St = C06St;

    fn pre(&self, st: &mut C06St, run: &mut Run<'_>, ev: &Ev, _judged: bool) {
        if st.h.is_empty() {
            st.h = (0..run.peers.len())
                .map(|_| Hist { distinct: vec![vec![]].into(), fresh: vec![false].into(), any: vec![false].into(), deliveries: vec![0].into(), newest: None })
                .collect();
        }
        // record the arrival with the id the frame will carry
        match *ev {
            Ev::Ann(_, k) => {
                let s = run.peers[k].announce_seq;
                self.note_arrival(st, k, s, true);
            }
            Ev::AnnDup(_, k) => {
                let s = run.peers[k].announce_seq.wrapping_sub(1);
                self.note_arrival(st, k, s, true);
            }
            Ev::AnnStale(_, k) => {
                let s = run.peers[k].announce_seq.wrapping_sub(2);
                self.note_arrival(st, k, s, true);
            }
            Ev::Ann255(_, k) => {
                let s = run.peers[k].announce_seq;
                self.note_arrival(st, k, s, false);
            }
            _ => {}
        }
    }

    fn post(&self, st: &mut C06St, run: &mut Run<'_>, s: &Step, report: Option<&mut Vec<Violation>>) {
        if s.ev != Ev::Bmca {
            return;
        }
        st.bmcas += 1;
        let mut out_local = vec![];
        if s.panic.is_none() {
            let parent = run.node.inst.parent_ds().parent_port_identity;
            let parent = Pid { clock: parent.clock_identity.0, port: parent.port_number };
            let state = s.after[0];
            let is_slave = matches!(state, PS::Slave);
            for (k, peer) in run.peers.iter().enumerate() {
                let h = &st.h[k];
                let is_parent = is_slave && peer.pid == parent;
                // N: necessary condition (generous window: everything still remembered)
                if is_parent {
                    let mut all: Vec<u16> = h.distinct.iter().take(5).flatten().cloned().collect();
                    all.sort();
                    all.dedup();
                    if self.own_peer.contains(&k) {
                        out_local.push(Violation {
                            signature: "parent-with-own-clock-identity".into(),
                            message: format!("port is slave to {:?}, which carries the instance's own clock identity", peer.pid),
                            replay: json!(null),
                        });
                    } else if all.len() < 2 {
                        let deliveries: u32 = h.deliveries.iter().take(5).sum();
                        let class = if all.is_empty() {
                            "no-countable-announce"
                        } else if deliveries >= 2 {
                            // one sequence id, but the frame was delivered more than once
                            "duplicated-single-announce"
                        } else {
                            "single-announce"
                        };
                        out_local.push(Violation {
                            signature: format!("qualified-by-{class}"),
                            message: format!(
                                "port is slave to peer {k} after a BMCA run although only {} distinct countable Announce(s) {:?} of it arrived in the last five intervals",
                                all.len(),
                                all
                            ),
                            replay: json!(null),
                        });
                    }
                }
                // E: silent for five whole intervals -> no longer the basis of a decision
                let silent5 = h.any.len() >= 6 && h.any.iter().take(6).all(|x| !*x);
                if silent5 && is_parent {
                    out_local.push(Violation {
                        signature: "silent-master-still-parent".into(),
                        message: format!("peer {k} has been silent for five intervals and is still the parent"),
                        replay: json!(null),
                    });
                }
            }
            // a port that a BMCA run leaves in the master state has fallen back to being master
            // itself: the instance is its own parent again (these worlds have one port)
            if matches!(state, PS::Master) && run.n_ports() == 1 && parent.clock != run.cfg.node.identity {
                out_local.push(Violation {
                    signature: "master-after-bmca-but-foreign-parent".into(),
                    message: format!("after a BMCA run the port is MASTER, but parentDS still names {:?}", parent),
                    replay: json!(null),
                });
            }
            // everybody silent for five intervals: the port must not stay slave/passive
            let all_silent = st.h.iter().all(|h| h.any.len() >= 6 && h.any.iter().take(6).all(|x| !*x));
            if all_silent && matches!(state, PS::Slave | PS::Passive) {
                out_local.push(Violation {
                    signature: "no-fallback-after-silence".into(),
                    message: format!("all masters silent for five intervals, port still {:?}", state),
                    replay: json!(null),
                });
            }
            // S: the best master announced freshly in this and the previous interval -> slave to it
            let mut best: Option<(u32, usize)> = None;
            for (k, h) in st.h.iter().enumerate() {
                if let Some(r) = self.rank[k] {
                    let sustained = h.fresh.len() >= 2 && h.fresh[0] && h.fresh[1];
                    // a better master that might also be qualified makes the expectation unclear
                    let maybe = h.any.iter().take(5).any(|x| *x);
                    if sustained || maybe {
                        if best.map(|(br, _)| r < br).unwrap_or(true) {
                            best = Some((r, k));
                        }
                    }
                }
            }
            if let Some((_, k)) = best {
                let h = &st.h[k];
                let sustained = h.fresh.len() >= 2 && h.fresh[0] && h.fresh[1];
                if sustained && !matches!(state, PS::Faulty) {
                    let ok = is_slave && run.peers[k].pid == parent;
                    if !ok {
                        out_local.push(Violation {
                            signature: "sustained-best-master-not-parent".into(),
                            message: format!(
                                "peer {k} is the best master heard and announced fresh sequence ids in this and the previous interval (newest {:?}), but the port is {:?} with parent {:?}",
                                h.newest, state, parent
                            ),
                            replay: json!(null),
                        });
                    }
                }
            }
        }
        // next interval
        for h in &mut st.h {
            h.distinct.push_front(vec![]);
            h.fresh.push_front(false);
            h.any.push_front(false);
            h.deliveries.push_front(0);
            h.deliveries.truncate(KEEP);
            h.distinct.truncate(KEEP);
            h.fresh.truncate(KEEP);
            h.any.truncate(KEEP);
        }
        if let Some(out) = report {
            out.extend(out_local);
        }
    }

    fn key(&self, st: &C06St) -> String {
        // the history summary future verdicts depend on, with ids relative to the newest
        let mut s = String::new();
        for h in &st.h {
            let n = h.newest.unwrap_or(0);
            let rel: Vec<Vec<u16>> = h.distinct.iter().map(|v| { let mut r: Vec<u16> = v.iter().map(|x| n.wrapping_sub(*x)).collect(); r.sort(); r }).collect();
            s.push_str(&format!("{:?}{:?}{:?}{:?}{};", rel, h.fresh, h.any, h.deliveries, h.newest.is_some()));
        }
        s
    }

    fn canon(&self, run: &Run<'_>, key: String) -> String {
        translate_sequence_ids(run, &key)
    }
}

/// Replace every `sequence_id: S` that follows a `source_port_identity` of a known
/// peer by the distance to that peer's next id, and drop the peers' counters.
pub fn translate_sequence_ids(run: &Run<'_>, key: &str) -> String {
    let mut out = String::with_capacity(key.len());
    let mut rest = key;
    const ID: &str = "clock_identity: ClockIdentity([";
    const SEQ: &str = "sequence_id: ";
    let mut last_sender: Option<Pid> = None;
    loop {
        let pi = rest.find(ID);
        let ps = rest.find(SEQ);
        match (pi, ps) {
            (Some(i), s) if s.map(|s| i < s).unwrap_or(true) => {
                // parse identity and following port number
                let after = &rest[i + ID.len()..];
                let end = after.find(']').unwrap();
                let bytes: Vec<u8> = after[..end].split(',').filter_map(|x| x.trim().parse().ok()).collect();
                let tail = &after[end..];
                let pn = tail.find("port_number: ").map(|p| {
                    let t = &tail[p + 13..];
                    let e = t.find(|c: char| !c.is_ascii_digit()).unwrap_or(t.len());
                    t[..e].parse::<u16>().unwrap_or(0)
                });
                if bytes.len() == 8 {
                    let mut c = [0u8; 8];
                    c.copy_from_slice(&bytes);
                    last_sender = Some(Pid { clock: c, port: pn.unwrap_or(0) });
                }
                out.push_str(&rest[..i + ID.len()]);
                rest = after;
            }
            (_, Some(s)) => {
                out.push_str(&rest[..s + SEQ.len()]);
                let t = &rest[s + SEQ.len()..];
                let e = t.find(|c: char| !c.is_ascii_digit()).unwrap_or(t.len());
                let v: u16 = t[..e].parse().unwrap_or(0);
                let peer = last_sender.as_ref().and_then(|p| run.peers.iter().find(|q| q.pid == *p));
                match peer {
                    Some(q) => out.push_str(&format!("~{}", q.announce_seq.wrapping_sub(v))),
                    None => out.push_str(&t[..e]),
                }
                rest = &t[e..];
            }
            _ => break,
        }
    }
    // the tail holds "peer<announce_seq>/<sync_seq>;" entries: drop the announce counters
    if let Some(p) = rest.find("peer") {
        out.push_str(&rest[..p]);
    } else {
        out.push_str(rest);
    }
    out
}

pub fn systems(mon: &QualMon, start_seq: u16, three: bool) -> Vec<WorldSys<'_, QualMon>> {
    let mut v = vec![];
    for (name, dup, p2p) in [("1p-2masters", true, false), ("1p-2masters-nodup", false, false)] {
        let _ = p2p;
        let node = NodeSpec::default();
        let mut cfg = WorldCfg { node: node.clone(), ..Default::default() };
        // peer 0 better than us, peer 1 better than us but worse than peer 0, peer 2 = own clock
        // identity (other port number), peer 3 worse than us
        cfg.peers = vec![Peer::gm(1, 1), Peer::gm(2, 2), own_clock_peer(&node, 9), own_clock_better(&node), Peer::gm(3, 250)];
        if !three {
            cfg.peers.truncate(4);
        }
        for p in &mut cfg.peers {
            p.announce_seq = start_seq;
        }
        let mut a = Alpha::new().add(Ev::Bmca).add(Ev::T(0, Timer::Receipt));
        for k in 0..cfg.peers.len() {
            a = a.add(Ev::Ann(0, k));
            if k < 2 {
                a = a.add(Ev::AnnStale(0, k)).add(Ev::Ann255(0, k));
                if dup {
                    a = a.add(Ev::AnnDup(0, k));
                }
            }
        }
        v.push(WorldSys {
            property: "C06",
            name: format!("{name}-seq{start_seq}{}", if three { "-3" } else { "" }),
            cfg,
            seed: vec![],
            alphabet: a.0,
            obedient: true,
            monitor: mon,
            macros: vec![],
        });
    }
    v
}

/// another port of our own clock (e.g. on the same segment, or spoofed) that passes on a
/// better grandmaster: own clock identity as sender, foreign grandmaster data
pub fn own_clock_better(node: &NodeSpec) -> Peer {
    let mut p = Peer::gm(0x77, 0);
    p.pid = Pid { clock: node.identity, port: 7 };
    p.steps_removed = 1;
    p
}

fn monitor(three: bool) -> QualMon {
    QualMon { own_peer: vec![2, 3], rank: if three { vec![Some(1), Some(2), None, None, None] } else { vec![Some(1), Some(2), None, None] } }
}

/// interval-level world: one transition = what each master does in one announce interval,
/// then the interval's BMCA run (or no BMCA), so that long horizons close
pub fn interval_system(mon: &QualMon, start_seq: u16) -> WorldSys<'_, QualMon> {
    interval_system_at(mon, start_seq, 0)
}

/// the same world with every announce interval at 2^log_announce seconds
pub fn interval_system_at(mon: &QualMon, start_seq: u16, log_announce: i8) -> WorldSys<'_, QualMon> {
    let mut node = NodeSpec::default();
    node.ports[0].log_announce = log_announce;
    let mut cfg = WorldCfg { node: node.clone(), ..Default::default() };
    cfg.peers = vec![Peer::gm(1, 1), Peer::gm(2, 2), own_clock_peer(&node, 9), own_clock_better(&node)];
    for p in &mut cfg.peers {
        p.announce_seq = start_seq;
        p.log_announce = log_announce;
    }
    // per master: absent / one fresh / fresh + duplicate (stale ids and skipped BMCA runs are
    // in the event-level worlds); arrivals before or after the interval's BMCA run
    let pat = |k: usize, i: usize| -> Vec<Ev> {
        match i {
            0 => vec![],
            1 => vec![Ev::Ann(0, k)],
            _ => vec![Ev::Ann(0, k), Ev::AnnDup(0, k)],
        }
    };
    let mut macros = vec![];
    for a in 0..3 {
        for b in 0..3 {
            let mut m = pat(0, a);
            m.extend(pat(1, b));
            m.push(Ev::Bmca);
            macros.push(m);
            if a != 0 || b != 0 {
                let mut m2 = vec![Ev::Bmca];
                m2.extend(pat(0, a));
                m2.extend(pat(1, b));
                macros.push(m2);
            }
        }
    }
    macros.push(vec![Ev::T(0, Timer::Receipt)]);
    macros.push(vec![Ev::Ann(0, 2), Ev::Ann(0, 2), Ev::Bmca]);
    macros.push(vec![Ev::Ann(0, 3), Ev::Ann(0, 3), Ev::Bmca]);
    macros.push(vec![Ev::Ann255(0, 0), Ev::Ann255(0, 0), Ev::Bmca]);
    let alphabet = (0..macros.len()).map(Ev::Macro).collect();
    let name = if log_announce == 0 { format!("intervals-seq{start_seq}") } else { format!("intervals-seq{start_seq}-log{log_announce}") };
    WorldSys { property: "C06", name, cfg, seed: vec![], alphabet, obedient: false, monitor: mon, macros }
}

fn same_prefix(a: &serde_json::Value, b: &serde_json::Value) -> Option<String> {
    let da = a["depth_completed"].as_u64().unwrap_or(0);
    let db = b["depth_completed"].as_u64().unwrap_or(0);
    let d = da.min(db) as usize;
    let pa = a["per_depth_new_states"].as_array()?;
    let pb = b["per_depth_new_states"].as_array()?;
    for i in 0..=d {
        if pa.get(i) != pb.get(i) {
            return Some(format!("depth {i}: {} vs {} new states", pa[i], pb[i]));
        }
    }
    None
}

/// interval-level world with two ports of one foreign clock on the segment (X.1 = peer 0 and
/// X.2 = peer 4, same clockIdentity and data set): each is a foreign master of its own
pub fn sibling_system(mon: &QualMon) -> WorldSys<'_, QualMon> {
    let mut sys = interval_system(mon, 0);
    let mut sib = sys.cfg.peers[0].clone();
    sib.pid.port = 2;
    sys.cfg.peers.push(sib);
    let pat = |k: usize, i: usize| -> Vec<Ev> {
        match i {
            0 => vec![],
            1 => vec![Ev::Ann(0, k)],
            _ => vec![Ev::Ann(0, k), Ev::AnnDup(0, k)],
        }
    };
    let mut macros = vec![];
    for a in 0..3 {
        for b in 0..3 {
            let mut m = pat(0, a);
            m.extend(pat(4, b));
            m.push(Ev::Bmca);
            macros.push(m);
            if a == 1 && b == 1 {
                macros.push(vec![Ev::Ann(0, 4), Ev::Ann(0, 0), Ev::Bmca]);
            }
        }
    }
    macros.push(vec![Ev::T(0, Timer::Receipt)]);
    macros.push(vec![Ev::Ann(0, 1), Ev::Bmca]);
    sys.alphabet = (0..macros.len()).map(Ev::Macro).collect();
    sys.macros = macros;
    sys.name = "intervals-sibling-ports".into();
    sys
}

pub fn run(tier: Tier) -> i32 {
    let mut rep = Reporter::new("C06", tier, "model_checking");
    let mon2 = monitor(false);
    let mon3 = monitor(true);
    let mon_sib = QualMon { own_peer: vec![2, 3], rank: vec![Some(2), Some(4), None, None, Some(3)] };
    let mut all = vec![];
    all.push(systems(&mon2, 0, false).remove(0));
    all.push(systems(&mon2, 65533, false).remove(0));
    all.push(interval_system(&mon2, 0));
    all.push(interval_system(&mon2, 65533));
    // the same interval-level world at announce intervals of 1/8 s, 4 s and 16 s: the window
    // scales with the interval, so the state graphs must agree level by level
    for la in [-3i8, 2, 4] {
        all.push(interval_system_at(&mon2, 0, la));
    }
    if tier == Tier::Thorough {
        all.push(systems(&mon2, 0, false).remove(1));
        all.extend(systems(&mon3, 0, true));
    }
    all.push(sibling_system(&mon_sib));
    explore_all(&mut rep, &all, |s| if s.name.starts_with("intervals") { tier.pick(3, 5) } else { tier.pick(7, 10) }, tier.pick(9.0, 600.0));
    // long horizon (E2): sixteen intervals of a default pattern with at most k departures
    {
        use std::hash::{Hash, Hasher};
        let k = tier.pick(2, 3);
        let mut total = simcore::dev::DevStats::default();
        let mut samples = vec![];
        let n_macros = interval_system(&mon2, 65530).macros.len();
        // ... for an ordinary clock, and for a slave-only instance whose announce receipt timeout (10
        // intervals) lies beyond the qualification window: its fall-back state is LISTENING
        for slave_only in [false, true] {
        let mut sys = interval_system(&mon2, 65530);
        if slave_only {
            sys.cfg.node.slave_only = true;
            sys.cfg.node.ports[0].receipt_timeout = 10;
            sys.name = format!("{}-slaveonly", sys.name);
        }
        // default patterns as macro indices: both masters fresh every interval (macro of a=1,b=1),
        // only the best master, total silence, best master every other interval
        let idx = |a: usize, b: usize| -> usize {
            sys.macros.iter().position(|m| {
                let mut want = vec![];
                if a == 1 { want.push(Ev::Ann(0, 0)); }
                if b == 1 { want.push(Ev::Ann(0, 1)); }
                want.push(Ev::Bmca);
                *m == want
            }).expect("harness: default macro")
        };
        let patterns: Vec<(&str, Vec<usize>)> = vec![
            ("both-every-interval", vec![idx(1, 1); 16]),
            ("best-only", vec![idx(1, 0); 16]),
            ("silence", vec![idx(0, 0); 16]),
            ("best-every-other", (0..16).map(|i| if i % 2 == 0 { idx(1, 0) } else { idx(0, 0) }).collect()),
            ("second-then-both", (0..16).map(|i| if i < 6 { idx(0, 1) } else { idx(1, 1) }).collect()),
        ];
        for (name, base) in &patterns {
            if slave_only && !matches!(*name, "silence" | "best-only") {
                continue;
            }
            let f = |dev: &[(usize, usize)]| -> (Vec<Violation>, u64) {
                let mut hist: Vec<Ev> = base.iter().map(|m| Ev::Macro(*m)).collect();
                for (p, a) in dev {
                    // alternative a in 1..n_macros: the a-th macro different from the default
                    let mut m = *a - 1;
                    if m >= base[*p] {
                        m += 1;
                    }
                    hist[*p] = Ev::Macro(m);
                }
                let o = sys.run_all_judged(&hist);
                let mut h = std::collections::hash_map::DefaultHasher::new();
                o.key.hash(&mut h);
                (o.violations, h.finish())
            };
            let (st, v) = simcore::dev::explore(16, &|_| n_macros - 1, k, &f);
            rep.violations(v);
            total.executions += st.executions;
            total.distinct_end_states += st.distinct_end_states;
            samples.push(json!({"pattern": name, "slave_only": slave_only, "executions": st.executions, "per_bound": st.per_bound, "distinct_end_states": st.distinct_end_states}));
        }
        }
        rep.cover("long_horizon", json!({"intervals": 16, "deviation_bound": k, "alternatives_per_interval": n_macros - 1, "executions": total.executions, "patterns": samples}));
    }
    // the sequence-number dimension, exhaustively: a master that announces regularly from
    // EVERY starting id 0..65535 must qualify and never be dropped over six intervals
    {
        use rayon::prelude::*;
        let mut hist = vec![Ev::Ann(0, 0), Ev::Ann(0, 0), Ev::Bmca];
        for _ in 0..5 {
            hist.extend([Ev::Ann(0, 0), Ev::Bmca]);
        }
        let v: Vec<Violation> = (0u32..65536)
            .into_par_iter()
            .flat_map(|s0| {
                let mut sys = systems(&mon2, s0 as u16, false).remove(0);
                sys.name = format!("seqsweep-{s0}");
                let mut o = sys.run_all_judged(&hist).violations;
                for x in &mut o {
                    x.replay = json!({"kind": "seqsweep", "start": s0});
                }
                o.truncate(1);
                o
            })
            .collect();
        rep.violations(v);
        rep.cover("sequence_id_sweep", json!({"start_ids": 65536, "history": format!("{:?}", hist)}));
    }
    // capacity: eight and nine concurrently announcing masters
    let (cap_evals, cap_v) = capacity();
    rep.violations(cap_v);
    rep.cover("capacity_cases", json!(cap_evals));
    // invariance of the canonical graph under the sequence-id translation, checked on the
    // real code: the explorations from counters 0 and 65533 must agree level by level
    let w = rep.coverage.get("worlds").cloned().unwrap_or(json!([]));
    let w = w.as_array().cloned().unwrap_or_default();
    for (i, j) in [(0usize, 1usize), (2, 3)] {
        if let Some(diff) = same_prefix(&w[i], &w[j]) {
            rep.violation(Violation {
                signature: "behaviour-depends-on-absolute-sequence-ids".into(),
                message: format!("worlds {} and {} differ only in the masters' starting sequence id (0 vs 65533) but their canonical state graphs differ at {diff}: ids around the 65535->0 wrap are treated differently", w[i]["world"], w[j]["world"]),
                replay: json!({"note": "compare worlds", "a": w[i]["world"], "b": w[j]["world"]}),
            });
        }
    }
    let base = w.iter().find(|x| x["world"] == "intervals-seq0").cloned();
    for x in w.iter().filter(|x| x["world"].as_str().map(|n| n.starts_with("intervals-seq0-log")).unwrap_or(false)) {
        if let (Some(b), Some(diff)) = (&base, base.as_ref().and_then(|b| same_prefix(b, x))) {
            rep.violation(Violation {
                signature: "behaviour-depends-on-the-announce-interval".into(),
                message: format!("worlds {} and {} differ only in the announce interval but their state graphs differ at {diff}", b["world"], x["world"]),
                replay: json!({"note": "compare worlds", "a": b["world"], "b": x["world"]}),
            });
        }
    }
    rep.assume("stored sequence ids are translated by the sender's next id in the canonical state; justified because qualification only computes wrapping_sub of two ids of one sender, and re-checked by the level-by-level comparison of the explorations started at ids 0 and 65533");
    rep.assume("interval boundaries are BMCA runs; the necessary condition uses a five-interval window, the sufficient condition two intervals, the expiry condition five silent intervals (no verdict depends on the exact purge boundary)");
    rep.finish()
}

/// 8 and 9 masters announcing twice each: with 8 the best must win; with 9 only the
/// necessary condition is claimed.
fn capacity() -> (u64, Vec<Violation>) {
    let mut out = vec![];
    let mut evals = 0;
    for n in [8usize, 9] {
        for best_pos in 0..n {
            evals += 1;
            let node = NodeSpec::default();
            let r = with_node::<RecFilter, _>(&node, |_| RecCfg(Default::default(), false), |nd| {
                let mut peers: Vec<Peer> = (0..n).map(|k| Peer::gm(10 + k as u8, if k == best_pos { 1 } else { 50 + k as u8 })).collect();
                for _ in 0..2 {
                    for p in peers.iter_mut() {
                        let a = p.announce();
                        let _ = simcore::scen::general(nd, 0, &a);
                    }
                }
                let _ = nd.bmca();
                let pd = nd.inst.parent_ds().parent_port_identity;
                (simcore::scen::port_state(nd, 0), pd.clock_identity.0, peers[best_pos].pid.clock, peers.iter().map(|p| p.pid.clock).collect::<Vec<_>>())
            });
            let (state, parent, best, all) = r;
            if n <= 8 && !(matches!(state, PS::Slave) && parent == best) {
                out.push(Violation {
                    signature: "capacity-best-of-8-not-selected".into(),
                    message: format!("{n} masters announce twice, the best is number {best_pos}, port is {:?} with parent {:?}", state, parent),
                    replay: json!({"kind": "capacity", "n": n, "best": best_pos}),
                });
            }
            if matches!(state, PS::Slave) && !all.contains(&parent) {
                out.push(Violation {
                    signature: "capacity-unknown-parent".into(),
                    message: format!("parent {:?} is none of the announcing masters", parent),
                    replay: json!({"kind": "capacity", "n": n, "best": best_pos}),
                });
            }
        }
    }
    // the per-master record capacity (8 stored Announces): a burst of 1..20 Announces of the best
    // master between two BMCA runs, alone and interleaved with a second master, then four more
    // regular intervals; the best master must be parent after every BMCA run from the second
    // Announce on, and silence afterwards must still drop it
    for burst in 1..=20usize {
        for with_other in [false, true] {
            evals += 1;
            let node = NodeSpec::default();
            let r = with_node::<RecFilter, _>(&node, |_| RecCfg(Default::default(), false), |nd| {
                let mut a = Peer::gm(1, 1);
                let mut b = Peer::gm(2, 60);
                let mut bad: Vec<String> = vec![];
                for i in 0..burst {
                    let f = a.announce();
                    let _ = simcore::scen::general(nd, 0, &f);
                    if with_other && i % 2 == 0 {
                        let f = b.announce();
                        let _ = simcore::scen::general(nd, 0, &f);
                    }
                }
                let is_parent = |nd: &mut Node<'_, RecFilter>, who: &Peer| nd.inst.parent_ds().parent_port_identity.clock_identity.0 == who.pid.clock && matches!(simcore::scen::port_state(nd, 0), PS::Slave);
                let _ = nd.bmca();
                if burst >= 2 && !is_parent(nd, &a) {
                    bad.push(format!("after a burst of {burst} Announces and one BMCA run the best master is not the parent"));
                }
                for k in 0..4 {
                    let f = a.announce();
                    let _ = simcore::scen::general(nd, 0, &f);
                    let _ = nd.bmca();
                    if !is_parent(nd, &a) {
                        bad.push(format!("regular interval {k} after the burst: the best master is not the parent"));
                    }
                }
                for _ in 0..6 {
                    let _ = nd.bmca();
                }
                if is_parent(nd, &a) {
                    bad.push("six silent intervals after the burst: the master is still the parent".into());
                }
                bad
            });
            for m in r {
                out.push(Violation {
                    signature: format!("burst:{}", if m.contains("silent") { "silent-master-still-parent" } else { "sustained-best-master-not-parent" }),
                    message: format!("{m} [burst {burst}, second master interleaved: {with_other}]"),
                    replay: json!({"kind": "capacity", "burst": burst, "with_other": with_other}),
                });
            }
        }
    }
    // ports with different announce intervals: the BMCA runs at the fastest port's interval, every
    // port's window is four of its OWN intervals.  A master announcing once per interval of the slow
    // port (in each possible phase against the BMCA runs) must qualify with its second Announce,
    // stay parent as long as it announces, and be gone five of the slow intervals after it stopped.
    for (fast, slow) in [(0i8, 2i8), (-1, 1), (0, 3)] {
        let ratio = 1usize << (slow - fast) as usize;
        for phase in 0..ratio {
            for slow_port in [0usize, 1] {
                evals += 1;
                let mut node = NodeSpec::default();
                node.ports = vec![PortSpec::default(), PortSpec::default()];
                node.ports[slow_port].log_announce = slow;
                node.ports[1 - slow_port].log_announce = fast;
                let r = with_node::<RecFilter, _>(&node, |_| RecCfg(Default::default(), false), |nd| {
                    let mut a = Peer::gm(1, 1);
                    a.log_announce = slow;
                    let mut bad: Vec<String> = vec![];
                    let a_clock = a.pid.clock;
                    let is_parent = |nd: &mut Node<'_, RecFilter>| nd.inst.parent_ds().parent_port_identity.clock_identity.0 == a_clock && matches!(simcore::scen::port_state(nd, slow_port), PS::Slave);
                    let periods = 8usize;
                    let mut announces = 0;
                    for run in 0..(periods * ratio) {
                        if run % ratio == phase {
                            let f = a.announce();
                            let _ = simcore::scen::general(nd, slow_port, &f);
                            announces += 1;
                        }
                        let _ = nd.bmca();
                        if announces >= 2 && !is_parent(nd) {
                            bad.push(format!("BMCA run {run}: the master has announced {announces} times, once per interval of the slow port, and is not the parent"));
                            break;
                        }
                    }
                    for _ in 0..(5 * ratio + 1) {
                        let _ = nd.bmca();
                    }
                    if is_parent(nd) {
                        bad.push("five slow intervals of silence: the master is still the parent".into());
                    }
                    bad
                });
                for m in r {
                    out.push(Violation {
                        signature: format!("unequal-port-intervals:{}", if m.contains("silence") { "silent-master-still-parent" } else { "sustained-best-master-not-parent" }),
                        message: format!("{m} [announce intervals 2^{fast} s and 2^{slow} s, master on port {}, phase {phase}]", slow_port + 1),
                        replay: json!({"kind": "capacity", "fast": fast, "slow": slow, "phase": phase, "slow_port": slow_port}),
                    });
                }
            }
        }
    }
    (evals, out)
}

pub fn replay(r: &serde_json::Value) {
    if r["kind"] == "seqsweep" {
        let mon2 = monitor(false);
        let s0 = r["start"].as_u64().unwrap() as u16;
        let sys = systems(&mon2, s0, false).remove(0);
        let mut hist = vec![Ev::Ann(0, 0), Ev::Ann(0, 0), Ev::Bmca];
        for _ in 0..5 {
            hist.extend([Ev::Ann(0, 0), Ev::Bmca]);
        }
        for x in sys.run_all_judged(&hist).violations {
            println!("VIOLATION {} :: {}", x.signature, x.message);
        }
        return;
    }
    if r["kind"] == "capacity" {
        let (_, v) = capacity();
        for x in v {
            println!("VIOLATION {} :: {}", x.signature, x.message);
        }
        return;
    }
    let mon2 = monitor(false);
    let mon3 = monitor(true);
    let mut all = vec![];
    all.extend(systems(&mon2, 0, false));
    all.extend(systems(&mon2, 65533, false));
    all.extend(systems(&mon3, 0, true));
    all.push(interval_system(&mon2, 0));
    all.push(interval_system(&mon2, 65533));
    all.push(interval_system(&mon2, 65530));
    for la in [-3i8, 2, 4] {
        all.push(interval_system_at(&mon2, 0, la));
    }
    let mon_sib = QualMon { own_peer: vec![2, 3], rank: vec![Some(2), Some(4), None, None, Some(3)] };
    all.push(sibling_system(&mon_sib));
    let mut so = interval_system(&mon2, 65530);
    so.cfg.node.slave_only = true;
    so.cfg.node.ports[0].receipt_timeout = 10;
    so.name = format!("{}-slaveonly", so.name);
    all.push(so);
    replay_world(&all, r);
}
