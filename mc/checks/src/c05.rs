//! C05 — BMCA state decision matches IEEE 1588 for every data set combination.
//! E3: own data set x up to three foreign masters on up to three ports x prior
//! port states x orderings, through the real `PtpInstance::bmca`, against the
//! independent reference of `simcore::refbmca`.

use rayon::prelude::*;
use serde::{Deserialize, Serialize};
use serde_json::json;
use simcore::harness::*;
use simcore::refbmca::{self as rb, Decision, Ds, Own, St};
use simcore::refcodec::{self as rc, Pid};
use simcore::report::{catch, Reporter, Tier, Violation};
use simcore::scen::*;
use statime::observability::port::PortState as PS;

const OWN_ID: [u8; 8] = [0x80, 0, 0, 0, 0, 0, 0, 0x01];

#[derive(Clone, Copy, Debug, PartialEq, Eq, Serialize, Deserialize)]
pub struct Attr {
    pub p1: u8,
    pub class: u8,
    pub acc: u8,
    pub var: u16,
    pub p2: u8,
    pub gm: u8, // last octet of the grandmaster identity
}

#[derive(Clone, Copy, Debug, PartialEq, Eq, Serialize, Deserialize)]
pub enum SenderRel {
    Below,
    Above,
    IsGm,
    /// a second port (number 2) of the clock that also sends as `Below` (k = 0)
    SiblingOfFirst,
    /// the very frames of foreign master 0 heard on another port too (one shared segment)
    SameFramesAsFirst,
}

#[derive(Clone, Copy, Debug, PartialEq, Eq, Serialize, Deserialize)]
pub struct Fm {
    pub attr: Attr,
    pub steps: u16,
    pub sender: SenderRel,
    pub port: usize,
}

#[derive(Clone, Copy, Debug, PartialEq, Eq, Serialize, Deserialize)]
pub enum Prior {
    None,
    /// receipt timeout on port p first (master)
    Timeout(usize),
    /// round with foreign master 0 alone first
    SeedRound,
    /// port p (P2P) made faulty first
    Faulty(usize),
    /// foreign master 0 announces twice, four BMCA runs pass in silence (its records age
    /// out), then the receipt timeout fires on its port; masters not listed in `arrival`
    /// stay silent in the final round
    SlaveSilenceTimeout,
    /// an earlier round in which every foreign master announced twice and the BMCA ran; in the
    /// final round only the masters listed in `arrival` announce (once) - the others are still
    /// qualified by their earlier Announces and must still be candidates
    EarlierRoundAll,
}

#[derive(Clone, Debug, PartialEq, Serialize, Deserialize)]
pub struct Case {
    pub own: Attr,
    pub n_ports: usize,
    pub master_only: Vec<bool>,
    pub slave_only: bool,
    pub fms: Vec<Fm>,
    pub prior: Prior,
    /// order in which ports are presented to bmca
    pub port_order: Vec<usize>,
    /// order in which the foreign masters' Announces arrive in the final round
    pub arrival: Vec<usize>,
    /// set_clock_quality(class, accuracy, variance) right before the final round
    #[serde(default)]
    pub quality_change: Option<(u8, u8, u16)>,
}

fn gm_id(x: u8) -> [u8; 8] {
    [0x40, 0, 0, 0, 0, 0, 0, x]
}

fn sender_pid(f: &Fm, k: usize) -> Pid {
    match f.sender {
        SenderRel::Below => Pid { clock: [0x10, 0, 0, 0, 0, 0, 0, k as u8], port: 1 },
        SenderRel::Above => Pid { clock: [0xf0, 0, 0, 0, 0, 0, 0, k as u8], port: 1 },
        SenderRel::IsGm => Pid { clock: gm_id(f.attr.gm), port: 1 },
        SenderRel::SiblingOfFirst => Pid { clock: [0x10, 0, 0, 0, 0, 0, 0, 0], port: 2 },
        SenderRel::SameFramesAsFirst => Pid { clock: [0x10, 0, 0, 0, 0, 0, 0, 0], port: 1 },
    }
}

fn peer_of(f: &Fm, k: usize) -> Peer {
    // the same frames as master 0: everything, sequence ids included, as for k = 0
    let k = if f.sender == SenderRel::SameFramesAsFirst { 0 } else { k };
    let mut p = Peer::gm(0, f.attr.p1);
    p.pid = sender_pid(f, k);
    p.gm_identity = gm_id(f.attr.gm);
    p.class = f.attr.class;
    p.accuracy = f.attr.acc;
    p.variance = f.attr.var;
    p.priority2 = f.attr.p2;
    p.steps_removed = f.steps;
    // distinct time properties per master so the data set update is observable
    p.utc_offset = 30 + k as i16;
    p.time_source = [0x10, 0x20, 0x40][k % 3];
    p.flags = [0, [0b0011_1100, 0b0000_1101, 0b0010_0010][k % 3]];
    p.announce_seq = 100 * (k as u16 + 1);
    p
}

fn st_of(s: PS) -> St {
    match s {
        PS::Listening => St::Listening,
        PS::Master => St::Master,
        PS::Passive => St::Passive,
        PS::Slave => St::Slave,
        PS::Faulty => St::Faulty,
        _ => panic!("harness: unexpected port state"),
    }
}

#[derive(Debug, Clone, PartialEq)]
struct Obs {
    states: Vec<St>,
    parent: Pid,
    gm: [u8; 8],
    gm_q: (u8, u8, u16),
    gm_p1: u8,
    gm_p2: u8,
    steps: u16,
    tp: String,
    path: usize,
}

fn observe(node: &Node<'_, RecFilter>) -> Obs {
    let pd = node.inst.parent_ds();
    let q = pd.grandmaster_clock_quality;
    Obs {
        states: (0..node.ports.len()).map(|p| st_of(port_state(node, p))).collect(),
        parent: Pid { clock: pd.parent_port_identity.clock_identity.0, port: pd.parent_port_identity.port_number },
        gm: pd.grandmaster_identity.0,
        gm_q: (q.clock_class, q.clock_accuracy.to_primitive(), q.offset_scaled_log_variance),
        gm_p1: pd.grandmaster_priority_1,
        gm_p2: pd.grandmaster_priority_2,
        steps: node.inst.current_ds(None).steps_removed,
        tp: format!("{:?}", node.inst.time_properties_ds()),
        path: node.inst.path_trace_ds().list.len(),
    }
}

fn spec_of(c: &Case) -> NodeSpec {
    let mut n = NodeSpec::default();
    n.identity = OWN_ID;
    n.priority_1 = c.own.p1;
    n.class = c.own.class;
    n.accuracy = c.own.acc;
    n.variance = c.own.var;
    n.priority_2 = c.own.p2;
    n.slave_only = c.slave_only;
    n.ports = (0..c.n_ports)
        .map(|p| PortSpec { master_only: c.master_only[p], p2p: matches!(c.prior, Prior::Faulty(q) if q == p), ..Default::default() })
        .collect();
    n
}

fn expected_tp_on_master() -> String {
    format!(
        "{:?}",
        // table 30: as grandmaster the instance announces the properties of its own clock,
        // i.e. what the harness gave it at construction
        simcore::harness::default_time_properties()
    )
}

fn tp_of_peer(p: &Peer) -> String {
    // table 16 / 13.5: flags -> timePropertiesDS
    let f = p.flags[1];
    let leap = if f & 0b10 != 0 {
        statime::config::LeapIndicator::Leap59
    } else if f & 0b1 != 0 {
        statime::config::LeapIndicator::Leap61
    } else {
        statime::config::LeapIndicator::NoLeap
    };
    let utc = if f & 0b100 != 0 { Some(p.utc_offset) } else { None };
    let mut tp = statime::config::TimePropertiesDS::new_ptp_time(utc, leap, f & 0b1_0000 != 0, f & 0b10_0000 != 0, time_source(p.time_source));
    tp.ptp_timescale = f & 0b1000 != 0;
    format!("{:?}", tp)
}

fn time_source(o: u8) -> statime::config::TimeSource {
    use statime::config::TimeSource as T;
    match o {
        0x10 => T::AtomicClock,
        0x20 => T::Gnss,
        0x40 => T::Ptp,
        0xa0 => T::InternalOscillator,
        _ => panic!("harness: time source"),
    }
}

/// Execute a case on the real code; returns (state before the final bmca, after).
fn execute(c: &Case) -> Result<(Obs, Obs), simcore::report::Caught> {
    let spec = spec_of(c);
    with_node::<RecFilter, _>(&spec, |_| RecCfg(Default::default(), false), |node| {
        let mut peers: Vec<Peer> = c.fms.iter().enumerate().map(|(k, f)| peer_of(f, k)).collect();
        catch(|| {
            match c.prior {
                Prior::None => {}
                Prior::Timeout(p) => {
                    let _ = receipt_timeout(node, p);
                }
                Prior::SeedRound => {
                    let f = c.fms[0];
                    let a = peers[0].announce();
                    let _ = general(node, f.port, &a);
                    let a = peers[0].announce();
                    let _ = general(node, f.port, &a);
                    let _ = node.bmca();
                }
                Prior::SlaveSilenceTimeout => {
                    let f = c.fms[0];
                    let a = peers[0].announce();
                    let _ = general(node, f.port, &a);
                    let a = peers[0].announce();
                    let _ = general(node, f.port, &a);
                    for _ in 0..4 {
                        let _ = node.bmca();
                    }
                    let _ = receipt_timeout(node, f.port);
                }
                Prior::EarlierRoundAll => {
                    for _ in 0..2 {
                        for k in 0..c.fms.len() {
                            let a = peers[k].announce();
                            let _ = general(node, c.fms[k].port, &a);
                        }
                    }
                    let _ = node.bmca();
                }
                Prior::Faulty(p) => {
                    let mut acts = delay_timer(node, p);
                    let (ctx, _) = take_ctx(&mut acts).expect("harness: no pdelay request");
                    let _ = collect(node.port(p).handle_send_timestamp(ctx, time_ns(1000)));
                    let own = own_pid(node, p);
                    let r1 = Peer::gm(0x31, 1);
                    let r2 = Peer::gm(0x32, 1);
                    let _ = event(node, p, &r1.pdelay_resp(0, true, rc::Ts::default(), 0, &own), time_ns(2000));
                    let _ = event(node, p, &r2.pdelay_resp(0, true, rc::Ts::default(), 0, &own), time_ns(2000));
                }
            }
            if let Some((cl, ac, va)) = c.quality_change {
                node.inst.set_clock_quality(statime::config::ClockQuality {
                    clock_class: cl,
                    clock_accuracy: accuracy_from_octet(ac),
                    offset_scaled_log_variance: va,
                });
            }
            // final round: every foreign master announces twice, in the given arrival order
            for round in 0..(if c.prior == Prior::EarlierRoundAll { 1 } else { 2 }) {
                let _ = round;
                for &k in &c.arrival {
                    let a = peers[k].announce();
                    let _ = general(node, c.fms[k].port, &a);
                }
            }
            let before = observe(node);
            let _ = node.bmca_ordered(&c.port_order);
            (before, observe(node))
        })
    })
}

#[derive(Debug, Clone, PartialEq)]
struct Expect {
    states: Vec<St>,
    /// None: data sets unchanged
    ds: Option<ExpDs>,
    ambiguous: bool,
    decisions: Vec<Option<Decision>>,
}
#[derive(Debug, Clone, PartialEq)]
enum ExpDs {
    SelfGm,
    From(usize),
}

fn reference(c: &Case, before: &Obs) -> Expect {
    let mut own = Own { id: OWN_ID, p1: c.own.p1, class: c.own.class, accuracy: c.own.acc, variance: c.own.var, p2: c.own.p2 };
    if let Some((cl, ac, va)) = c.quality_change {
        own.class = cl;
        own.accuracy = ac;
        own.variance = va;
    }
    let ds_of = |k: usize| -> Ds {
        let f = &c.fms[k];
        Ds {
            p1: f.attr.p1,
            class: f.attr.class,
            accuracy: f.attr.acc,
            variance: f.attr.var,
            p2: f.attr.p2,
            gm: gm_id(f.attr.gm),
            steps: f.steps,
            sender: sender_pid(f, k),
            receiver: Pid { clock: OWN_ID, port: (f.port + 1) as u16 },
        }
    };
    let mut ambiguous = false;
    // Erbest per port
    let mut erbest: Vec<Option<usize>> = vec![None; c.n_ports];
    for p in 0..c.n_ports {
        // candidates: the masters that announce (twice) in the final round; with the
        // SlaveSilenceTimeout prior a master left out has been silent for > 4 intervals
        let ks: Vec<usize> = (0..c.fms.len()).filter(|&k| c.fms[k].port == p && (c.arrival.contains(&k) || c.prior == Prior::EarlierRoundAll)).collect();
        if ks.is_empty() {
            continue;
        }
        let dss: Vec<Ds> = ks.iter().map(|&k| ds_of(k)).collect();
        let best = rb::best_indices(&dss, true);
        if best.len() != 1 {
            ambiguous = true;
        }
        // the topology part of the comparison is not transitive: three candidates can beat each
        // other in a circle, and then the standard prescribes no single winner
        let Some(&b0) = best.first() else {
            return Expect { states: vec![], ds: None, ambiguous: true, decisions: vec![] };
        };
        erbest[p] = Some(ks[b0]);
    }
    // Ebest over ports that take part (not master-only, not faulty)
    let part: Vec<usize> = (0..c.n_ports).filter(|&p| !c.master_only[p] && before.states[p] != St::Faulty && erbest[p].is_some()).collect();
    let ebest: Option<usize> = if part.is_empty() {
        None
    } else {
        let dss: Vec<Ds> = part.iter().map(|&p| ds_of(erbest[p].unwrap())).collect();
        let best = rb::best_indices(&dss, true);
        if best.len() != 1 {
            ambiguous = true;
        }
        let Some(&b0) = best.first() else {
            return Expect { states: vec![], ds: None, ambiguous: true, decisions: vec![] };
        };
        Some(erbest[part[b0]].unwrap())
    };
    let mut decisions = vec![];
    let mut states = vec![];
    for p in 0..c.n_ports {
        let d = if erbest[p].is_none() && before.states[p] == St::Listening {
            None // statime keeps the 2008 behaviour: a listening port without Erbest stays listening
        } else {
            let eb = ebest.map(ds_of);
            let er = erbest[p].map(ds_of);
            let is_er = ebest.is_some() && ebest == erbest[p] && !c.master_only[p] && before.states[p] != St::Faulty;
            Some(rb::decide(&own, eb.as_ref(), er.as_ref(), is_er, true))
        };
        decisions.push(d);
        states.push(rb::apply(before.states[p], d, c.slave_only, false));
    }
    let ds = if decisions.iter().any(|d| matches!(d, Some(Decision::M1) | Some(Decision::M2))) {
        // (with S1 on another port this cannot coincide: M2 needs D0 >= Ebest, S1 the opposite;
        // for class < 128 there is no S1)
        Some(ExpDs::SelfGm)
    } else if decisions.iter().any(|d| matches!(d, Some(Decision::S1))) {
        Some(ExpDs::From(ebest.unwrap()))
    } else {
        None
    };
    Expect { states, ds, ambiguous, decisions }
}

fn judge(c: &Case) -> (Vec<Violation>, String) {
    let mut out = vec![];
    let replay = json!({"case": c});
    let (before, after) = match execute(c) {
        Ok(x) => x,
        Err(_) => return (out, "panic".into()), // C03's business
    };
    let e = reference(c, &before);
    let class = format!("{:?}", e.decisions);
    if e.ambiguous {
        // the data set comparison cannot separate two candidates: any of them is conformant
        return (out, format!("ambiguous {class}"));
    }
    let mut push = |sig: String, msg: String| {
        out.push(Violation { signature: sig, message: format!("{msg} [case {:?}; decisions {:?}; prior states {:?}]", c, e.decisions, before.states), replay: replay.clone() })
    };
    if after.states != e.states {
        for p in 0..c.n_ports {
            if after.states[p] != e.states[p] {
                push(
                    format!("port-state:{:?}->{:?}-expected-{:?}-decision-{:?}", before.states[p], after.states[p], e.states[p], e.decisions[p]),
                    format!("port {} is {:?}, reference says {:?}", p + 1, after.states[p], e.states[p]),
                );
            }
        }
    }
    let peers: Vec<Peer> = c.fms.iter().enumerate().map(|(k, f)| peer_of(f, k)).collect();
    match &e.ds {
        None => {
            let mut b2 = before.clone();
            b2.states = after.states.clone();
            if b2 != after {
                push("datasets-changed-without-M1-M2-S1".into(), format!("before {:?} after {:?}", before, after));
            }
        }
        Some(ExpDs::SelfGm) => {
            let q = c.quality_change.unwrap_or((c.own.class, c.own.acc, c.own.var));
            let want = (Pid { clock: OWN_ID, port: 0 }, OWN_ID, q, c.own.p1, c.own.p2, 0u16);
            let got = (after.parent.clone(), after.gm, after.gm_q, after.gm_p1, after.gm_p2, after.steps);
            if got != want {
                push("datasets-after-M1-M2".into(), format!("got {:?} want {:?}", got, want));
            }
            if after.tp != expected_tp_on_master() {
                push("time-properties-after-M1-M2".into(), format!("got {} want {}", after.tp, expected_tp_on_master()));
            }
            if after.path != 0 {
                push("path-trace-after-M1-M2".into(), format!("{} entries", after.path));
            }
        }
        Some(ExpDs::From(k)) => {
            let f = &c.fms[*k];
            let want = (sender_pid(f, *k), gm_id(f.attr.gm), (f.attr.class, f.attr.acc, f.attr.var), f.attr.p1, f.attr.p2, f.steps + 1);
            let got = (after.parent.clone(), after.gm, after.gm_q, after.gm_p1, after.gm_p2, after.steps);
            if got != want {
                push("datasets-after-S1".into(), format!("got {:?} want {:?}", got, want));
            }
            if after.tp != tp_of_peer(&peers[*k]) {
                push("time-properties-after-S1".into(), format!("got {} want {}", after.tp, tp_of_peer(&peers[*k])));
            }
        }
    }
    (out, class)
}

// ---------------------------------------------------------------------------
// enumeration
// ---------------------------------------------------------------------------

fn pool(levels: &[usize]) -> Vec<Attr> {
    // two values at each chosen lexicographic level (0..6); others fixed at the first value
    let vals: [[u32; 2]; 6] = [[100, 110], [200, 210], [0x21, 0x23], [0x1000, 0x2000], [50, 60], [1, 2]];
    let mut out = vec![];
    for m in 0..(1u32 << levels.len()) {
        let mut v = [0u32; 6];
        for l in 0..6 {
            v[l] = vals[l][0];
        }
        for (i, &l) in levels.iter().enumerate() {
            v[l] = vals[l][((m >> i) & 1) as usize];
        }
        out.push(Attr { p1: v[0] as u8, class: v[1] as u8, acc: v[2] as u8, var: v[3] as u16, p2: v[4] as u8, gm: v[5] as u8 });
    }
    out
}

fn owns() -> Vec<Attr> {
    let mut v: Vec<Attr> = pool(&[0, 1, 2, 3, 4]);
    for class in [6u8, 127, 128, 248, 255] {
        for p1 in [100u8, 110, 105] {
            v.push(Attr { p1, class, acc: 0x22, var: 0x1800, p2: 55, gm: 0 });
        }
    }
    v
}

fn perms(n: usize) -> Vec<Vec<usize>> {
    match n {
        1 => vec![vec![0]],
        2 => vec![vec![0, 1], vec![1, 0]],
        3 => vec![vec![0, 1, 2], vec![0, 2, 1], vec![1, 0, 2], vec![1, 2, 0], vec![2, 0, 1], vec![2, 1, 0]],
        _ => unreachable!(),
    }
}

struct Acc {
    evals: u64,
    classes: std::collections::BTreeMap<String, u64>,
    viols: std::collections::BTreeMap<String, Violation>,
    samples: Vec<serde_json::Value>,
}

fn run_cases(acc: &mut Acc, cases: Vec<Case>) {
    let res: Vec<(Vec<Violation>, String)> = cases.par_iter().map(judge).collect();
    for (i, (v, class)) in res.into_iter().enumerate() {
        acc.evals += 1;
        *acc.classes.entry(class).or_insert(0) += 1;
        for x in v {
            acc.viols.entry(x.signature.clone()).or_insert(x);
        }
        if acc.samples.len() < 4 && i % 50_000 == 7 {
            acc.samples.push(json!(cases[i]));
        }
    }
}

/// metamorphic: the outcome must not depend on port order or arrival order
fn run_metamorphic(acc: &mut Acc, cases: Vec<Case>) {
    let res: Vec<Option<Violation>> = cases
        .par_iter()
        .map(|c| {
            let base = execute(c).ok()?;
            let before = &base.0;
            if reference(c, before).ambiguous {
                return None;
            }
            for po in perms(c.n_ports) {
                for ao in perms(c.fms.len()) {
                    let mut c2 = c.clone();
                    c2.port_order = po.clone();
                    c2.arrival = ao.clone();
                    if let Ok(r) = execute(&c2) {
                        if r.1 != base.1 {
                            return Some(Violation {
                                signature: "order-dependence".into(),
                                message: format!("outcome depends on port order {:?} / arrival order {:?}: {:?} vs {:?} [case {:?}]", po, ao, r.1, base.1, c),
                                replay: json!({"case": c2}),
                            });
                        }
                    }
                }
            }
            None
        })
        .collect();
    for (i, v) in res.into_iter().enumerate() {
        acc.evals += (perms(cases[i].n_ports).len() * perms(cases[i].fms.len()).len()) as u64;
        if let Some(x) = v {
            acc.viols.entry(x.signature.clone()).or_insert(x);
        }
    }
}

pub fn run(tier: Tier) -> i32 {
    let mut rep = Reporter::new("C05", tier, "exploration");
    let mut acc = Acc { evals: 0, classes: Default::default(), viols: Default::default(), samples: vec![] };
    let steps = [0u16, 1, 2, 3, 254];
    let senders = [SenderRel::Below, SenderRel::Above, SenderRel::IsGm];
    // tier 1: one port, one foreign master — full product
    let mut cases = vec![];
    for own in owns() {
        for attr in pool(&[0, 1, 2, 3, 4, 5]) {
            for &st in &steps {
                for &s in &senders {
                    for prior in [Prior::None, Prior::Timeout(0), Prior::SeedRound, Prior::Faulty(0)] {
                        for (mo, so) in [(false, false), (true, false), (false, true)] {
                            cases.push(Case {
                                own,
                                n_ports: 1,
                                master_only: vec![mo],
                                slave_only: so,
                                fms: vec![Fm { attr, steps: st, sender: s, port: 0 }],
                                prior,
                                port_order: vec![0],
                                arrival: vec![0],
                                quality_change: None,
                            });
                        }
                    }
                }
            }
        }
    }
    run_cases(&mut acc, cases);
    // shared segment: the frames of one master reach two ports of the instance
    let mut cases = vec![];
    let mut meta = vec![];
    for (oi, own) in owns().into_iter().step_by(3).enumerate() {
        for (ai, a) in pool(&[0, 1, 4, 5]).iter().enumerate() {
            for &sa in &steps {
                for (n_ports, pa, pb) in [(2usize, 0usize, 1usize), (2, 1, 0), (3, 0, 2), (3, 2, 1)] {
                    for prior in [Prior::None, Prior::SeedRound] {
                        for mo in [None, Some(pa), Some(pb)] {
                            let mut master_only = vec![false; n_ports];
                            if let Some(m) = mo {
                                master_only[m] = true;
                            }
                            let c = Case {
                                own,
                                n_ports,
                                master_only,
                                slave_only: false,
                                fms: vec![Fm { attr: *a, steps: sa, sender: SenderRel::Below, port: pa }, Fm { attr: *a, steps: sa, sender: SenderRel::SameFramesAsFirst, port: pb }],
                                prior,
                                port_order: (0..n_ports).collect(),
                                arrival: vec![0, 1],
                                quality_change: None,
                            };
                            if (oi + ai + sa as usize) % 5 == 0 {
                                meta.push(c.clone());
                            }
                            cases.push(c);
                        }
                    }
                }
            }
        }
    }
    run_cases(&mut acc, cases);
    run_metamorphic(&mut acc, meta);
    // an older Announce of a better master against a fresher one of a worse master
    let mut cases = vec![];
    for own in owns().into_iter().step_by(3) {
        for a in pool(&[0, 1, 4, 5]).iter() {
            for b in pool(&[0, 1, 4, 5]).iter() {
                for (sa, sb) in [(0u16, 0u16), (1, 1), (1, 2), (2, 1)] {
                    for (n_ports, pa, pb) in [(1usize, 0usize, 0usize), (2, 0, 1), (2, 1, 0)] {
                        for arrival in [vec![0usize], vec![1]] {
                            cases.push(Case {
                                own,
                                n_ports,
                                master_only: vec![false; n_ports],
                                slave_only: false,
                                fms: vec![Fm { attr: *a, steps: sa, sender: SenderRel::Below, port: pa }, Fm { attr: *b, steps: sb, sender: SenderRel::Above, port: pb }],
                                prior: Prior::EarlierRoundAll,
                                port_order: (0..n_ports).collect(),
                                arrival,
                                quality_change: None,
                            });
                        }
                    }
                }
            }
        }
    }
    run_cases(&mut acc, cases);
    // tier 2: two foreign masters on one or two ports, 16-member sub-pool
    let sub16 = pool(&[0, 1, 4, 5]);
    let own16: Vec<Attr> = owns().into_iter().step_by(3).collect();
    let mut cases = vec![];
    let mut meta = vec![];
    for (oi, own) in own16.iter().enumerate() {
        for (ai, a) in sub16.iter().enumerate() {
            for (bi, b) in sub16.iter().enumerate() {
                for &sa in &steps {
                    for &sb in &steps {
                        for (ra, rb_) in [(SenderRel::Below, SenderRel::Above), (SenderRel::Above, SenderRel::Below), (SenderRel::IsGm, SenderRel::Below), (SenderRel::Below, SenderRel::SiblingOfFirst)] {
                            for (n_ports, pa, pb) in [(1usize, 0usize, 0usize), (2, 0, 1), (2, 1, 0)] {
                                for prior in [Prior::None, Prior::SeedRound] {
                                    let c = Case {
                                        own: *own,
                                        n_ports,
                                        master_only: vec![false; n_ports],
                                        slave_only: false,
                                        fms: vec![Fm { attr: *a, steps: sa, sender: ra, port: pa }, Fm { attr: *b, steps: sb, sender: rb_, port: pb }],
                                        prior,
                                        port_order: (0..n_ports).collect(),
                                        arrival: vec![0, 1],
                                        quality_change: None,
                                    };
                                    if (oi + ai + bi + sa as usize + sb as usize) % 7 == 0 {
                                        meta.push(c.clone());
                                    }
                                    cases.push(c);
                                }
                            }
                        }
                    }
                }
            }
        }
    }
    if tier == Tier::Quick {
        // quick: every own x pair, but only the steps diagonal-ish subset to stay under a minute
        cases.retain(|c| (c.fms[0].steps as usize + 2 * c.fms[1].steps as usize) % 3 != 1);
    }
    run_cases(&mut acc, cases);
    run_metamorphic(&mut acc, meta);
    // master-only / slave-only / timeout priors with two ports
    let mut cases = vec![];
    for own in &own16 {
        for a in &sub16 {
            for &sa in &[0u16, 1, 254] {
                for mo in [[false, true], [true, false], [true, true]] {
                    for prior in [Prior::None, Prior::Timeout(1), Prior::Timeout(0), Prior::Faulty(0), Prior::Faulty(1)] {
                        for so in [false, true] {
                            for port in [0usize, 1] {
                                cases.push(Case {
                                    own: *own,
                                    n_ports: 2,
                                    master_only: mo.to_vec(),
                                    slave_only: so,
                                    fms: vec![Fm { attr: *a, steps: sa, sender: SenderRel::Below, port }],
                                    prior,
                                    port_order: vec![0, 1],
                                    arrival: vec![0],
                                    quality_change: None,
                                });
                            }
                        }
                    }
                }
            }
        }
    }
    run_cases(&mut acc, cases);
    // stale-data-set histories: slave, silence, receipt timeout, (quality change), final round
    let mut cases = vec![];
    for own in &own16 {
        for a in &sub16 {
            for b in sub16.iter().step_by(3) {
                for qc in [None, Some((6u8, 0x21u8, 0x100u16)), Some((255, 0xfe, 0xffff)), Some((200, 0x22, 0x1800))] {
                    for (n_ports, pb) in [(1usize, 0usize), (2, 1), (2, 0)] {
                        for arrival in [vec![], vec![1usize]] {
                            for prior in [Prior::SlaveSilenceTimeout, Prior::Timeout(0), Prior::SeedRound] {
                                let arrival = if prior == Prior::SeedRound { vec![0, 1] } else { arrival.clone() };
                                // a slave-only instance whose port is SLAVE from the earlier round and now
                                // gets decision M1/M2/M3 (E_best moved to the other port, or the parent
                                // fell below D0): back to LISTENING
                                if prior == Prior::SeedRound {
                                    cases.push(Case {
                                        own: *own,
                                        n_ports,
                                        master_only: vec![false; n_ports],
                                        slave_only: true,
                                        fms: vec![Fm { attr: *a, steps: 1, sender: SenderRel::Below, port: 0 }, Fm { attr: *b, steps: 0, sender: SenderRel::Above, port: pb }],
                                        prior,
                                        port_order: (0..n_ports).collect(),
                                        arrival: arrival.clone(),
                                        quality_change: qc,
                                    });
                                }
                                cases.push(Case {
                                    own: *own,
                                    n_ports,
                                    master_only: vec![false; n_ports],
                                    slave_only: false,
                                    fms: vec![Fm { attr: *a, steps: 1, sender: SenderRel::Below, port: 0 }, Fm { attr: *b, steps: 0, sender: SenderRel::Above, port: pb }],
                                    prior,
                                    port_order: (0..n_ports).collect(),
                                    arrival,
                                    quality_change: qc,
                                });
                            }
                        }
                    }
                }
            }
        }
    }
    run_cases(&mut acc, cases);
    if tier == Tier::Thorough {
        // tier 3: three foreign masters on up to three ports, 8-member sub-pool
        let sub8 = pool(&[0, 4, 5]);
        let mut cases = vec![];
        let mut meta = vec![];
        for own in owns().into_iter().step_by(5) {
            for a in &sub8 {
                for b in &sub8 {
                    for c3 in &sub8 {
                        for &sa in &[0u16, 1, 2] {
                            for &sb in &[0u16, 1, 2] {
                                for &sc in &[0u16, 1, 3] {
                                    for ports in [[0usize, 0, 0], [0, 1, 2], [0, 0, 1], [1, 0, 2], [2, 1, 0]] {
                                        let n_ports = 3;
                                        let c = Case {
                                            own,
                                            n_ports,
                                            master_only: vec![false; 3],
                                            slave_only: false,
                                            fms: vec![
                                                Fm { attr: *a, steps: sa, sender: SenderRel::Below, port: ports[0] },
                                                Fm { attr: *b, steps: sb, sender: SenderRel::Above, port: ports[1] },
                                                Fm { attr: *c3, steps: sc, sender: SenderRel::IsGm, port: ports[2] },
                                            ],
                                            prior: Prior::None,
                                            port_order: vec![0, 1, 2],
                                            arrival: vec![0, 1, 2],
                                            quality_change: None,
                                        };
                                        if (sa + sb + sc) % 4 == 0 && a.gm == b.gm {
                                            meta.push(c.clone());
                                        }
                                        cases.push(c);
                                    }
                                }
                            }
                        }
                    }
                }
            }
        }
        run_cases(&mut acc, cases);
        run_metamorphic(&mut acc, meta);
    }
    rep.violations(acc.viols.into_values());
    let nontrivial: u64 = acc.classes.iter().filter(|(k, _)| !k.starts_with("[None") || k.contains("Some")).map(|(_, v)| *v).sum();
    rep.cover("evaluations", json!(acc.evals));
    rep.cover("distinct_nontrivial", json!(nontrivial));
    rep.cover("decision_vectors", json!(acc.classes));
    rep.cover("rule", json!("own data set (32 pool combinations of priority1/class/accuracy/variance/priority2 + clockClass 6/127/128/248/255) x foreign masters from the two-values-per-level pool (64 / 16 / 8 members) x stepsRemoved {0,1,2,3,254} x sender identity relation (below/above the receiver, the grandmaster itself, a second port of the first sender's clock, the first sender's very frames heard on another port) x receiving port x prior state (fresh, master by timeout, previous BMCA round, faulty) x master-only/slave-only; non-trivial = cases whose reference decision vector contains a decision (not only 'stay listening'); decision vectors are counted in decision_vectors"));
    rep.cover("samples", json!(acc.samples));
    rep.cover("exhaustive", json!(true));
    rep.assume("refbmca (simcore/src/refbmca.rs) is a correct reading of IEEE 1588-2019 figures 33-35 and tables 30-33; senders are compared by full port identity");
    rep.assume("deviations mirrored: listening without Erbest stays listening; slave-only -> listening; master-only ports excluded from Ebest; faulty ports excluded and unchanged; M1/M2 reset timePropertiesDS to the fixed free-running values (TP-M1)");
    rep.assume("cases where the data set comparison cannot separate two candidates (figure 35 error cases) accept any of them");
    rep.finish()
}

pub fn replay(r: &serde_json::Value) {
    let c: Case = serde_json::from_value(r["case"].clone()).expect("case");
    match execute(&c) {
        Ok((b, a)) => {
            println!("before {:?}\nafter  {:?}\nreference {:?}", b, a, reference(&c, &b));
        }
        Err(p) => println!("panic {}", p.message),
    }
    for v in judge(&c).0 {
        println!("VIOLATION {} :: {}", v.signature, v.message);
    }
}
