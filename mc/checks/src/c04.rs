//! C04 — wire codec is total, lossless on defined fields and self-consistent.
//! E3: bounded exhaustive enumeration of a structured byte-string lattice against
//! the independent reference codec (DESIGN 4/C04).

use rayon::prelude::*;
use serde_json::json;
use simcore::dbg::{self, Dbg};
use simcore::harness::{hex, unhex};
use simcore::refcodec::*;
use simcore::refnames::*;
use simcore::report::{catch, Reporter, Tier, Violation};
use statime::fuzz::FuzzMessage;

#[derive(Clone)]
pub struct Case {
    pub label: String,
    pub bytes: Vec<u8>,
}

fn ts_a() -> Ts {
    Ts { secs: 0x0102_0304_0506, nanos: 0x0708_090a }
}
fn pid_a() -> Pid {
    Pid { clock: [0x11, 0x12, 0x13, 0x14, 0x15, 0x16, 0x17, 0x18], port: 0x191a }
}
fn pid_b() -> Pid {
    Pid { clock: [0x21, 0x22, 0x23, 0x24, 0x25, 0x26, 0x27, 0x28], port: 0x292a }
}

/// representative message of every type nibble, all fields distinct and non-zero
pub fn base_msg(t: u8) -> Msg {
    let h = Hdr {
        major_sdo: 0x3,
        msg_type: t,
        minor_version: 1,
        version: 2,
        length: None,
        domain: 0x4d,
        minor_sdo: 0x5e,
        flags: [0, 0],
        correction: 0x0123_4567_89ab_cdef,
        type_specific: [0; 4],
        source: pid_a(),
        seq: 0xa1b2,
        control: None,
        log_interval: -3,
    };
    let body = match t {
        SYNC => Body::Sync { origin: ts_a() },
        DELAY_REQ => Body::DelayReq { origin: ts_a() },
        PDELAY_REQ => Body::PdelayReq { origin: ts_a(), reserved: [0; 10] },
        PDELAY_RESP => Body::PdelayResp { receipt: ts_a(), requester: pid_b() },
        FOLLOW_UP => Body::FollowUp { precise_origin: ts_a() },
        DELAY_RESP => Body::DelayResp { receive: ts_a(), requester: pid_b() },
        PDELAY_RESP_FUP => Body::PdelayRespFollowUp { response_origin: ts_a(), requester: pid_b() },
        ANNOUNCE => Body::Announce(AnnounceBody {
            origin: ts_a(),
            utc_offset: 0x0b0c,
            reserved: 0,
            gm_priority1: 0x31,
            gm_class: 0x32,
            gm_accuracy: 0x21,
            gm_variance: 0x3435,
            gm_priority2: 0x36,
            gm_identity: [0x41, 0x42, 0x43, 0x44, 0x45, 0x46, 0x47, 0x48],
            steps_removed: 0x0d0e,
            time_source: 0x20,
        }),
        SIGNALING => Body::Signaling { target: pid_b() },
        MANAGEMENT => Body::Management { target: pid_b(), starting_hops: 0x51, hops: 0x52, action: 0x03, reserved: 0 },
        _ => Body::Raw(vec![0x77; 20]),
    };
    Msg { hdr: h, body, tlvs: vec![], trailing: vec![] }
}

fn case(label: String, m: &Msg) -> Case {
    Case { label, bytes: encode(m) }
}

const B16: [u16; 5] = [0, 1, 0x7fff, 0x8000, 0xffff];

fn vals16() -> Vec<u16> {
    let mut v = B16.to_vec();
    for b in 0..16 {
        v.push(1 << b);
    }
    v.sort();
    v.dedup();
    v
}

/// patterns for wide fields of n bytes: all-zero, all-one, each single byte set
fn wide(n: usize) -> Vec<Vec<u8>> {
    let mut v = vec![vec![0u8; n], vec![0xffu8; n]];
    for i in 0..n {
        let mut x = vec![0u8; n];
        x[i] = 0xa5;
        v.push(x);
    }
    v
}

pub fn generate(tier: Tier) -> Vec<Case> {
    let mut out = vec![];
    // 1. every type nibble
    for t in 0..16u8 {
        out.push(case(format!("type={t:#x}"), &base_msg(t)));
    }
    // 2. flags: all 2^12 defined combinations on Announce (and on Sync in thorough);
    //    every single bit of the 16 on every type
    let flag_types: &[u8] = if tier == Tier::Thorough { &DEFINED_TYPES } else { &[ANNOUNCE] };
    for &t in flag_types {
        for combo in 0..(1u32 << 12) {
            let mut m = base_msg(t);
            for (i, f) in DEFINED_FLAGS.iter().enumerate() {
                m.hdr.set_flag(*f, combo & (1 << i) != 0);
            }
            out.push(case(format!("type={t:#x} flags12={combo:#05x}"), &m));
        }
    }
    for &t in &DEFINED_TYPES {
        for oct in 0..2 {
            for bit in 0..8 {
                let mut m = base_msg(t);
                m.hdr.flags[oct] = 1 << bit;
                out.push(case(format!("type={t:#x} flagbit={oct}.{bit}"), &m));
            }
        }
    }
    // 3. every value of each 8-bit field
    for &t in &DEFINED_TYPES {
        for v in 0..=255u8 {
            let mut m = base_msg(t);
            m.hdr.domain = v;
            out.push(case(format!("type={t:#x} domain={v}"), &m));
            let mut m = base_msg(t);
            m.hdr.log_interval = v as i8;
            out.push(case(format!("type={t:#x} logint={v}"), &m));
            let mut m = base_msg(t);
            m.hdr.minor_sdo = v;
            out.push(case(format!("type={t:#x} minorsdo={v}"), &m));
            let mut m = base_msg(t);
            m.hdr.control = Some(v);
            out.push(case(format!("type={t:#x} control={v}"), &m));
        }
        for v in 0..16u8 {
            let mut m = base_msg(t);
            m.hdr.major_sdo = v;
            out.push(case(format!("type={t:#x} majorsdo={v}"), &m));
            let mut m = base_msg(t);
            m.hdr.version = v;
            out.push(case(format!("type={t:#x} version={v}"), &m));
            let mut m = base_msg(t);
            m.hdr.minor_version = v;
            out.push(case(format!("type={t:#x} minorversion={v}"), &m));
        }
        for b in wide(4) {
            let mut m = base_msg(t);
            m.hdr.type_specific = b.clone().try_into().unwrap();
            out.push(case(format!("type={t:#x} typespecific={}", hex(&b)), &m));
        }
    }
    for v in 0..=255u8 {
        let mk = |f: &dyn Fn(&mut AnnounceBody)| {
            let mut m = base_msg(ANNOUNCE);
            if let Body::Announce(a) = &mut m.body {
                f(a);
            }
            m
        };
        out.push(case(format!("announce p1={v}"), &mk(&|a| a.gm_priority1 = v)));
        out.push(case(format!("announce p2={v}"), &mk(&|a| a.gm_priority2 = v)));
        out.push(case(format!("announce class={v}"), &mk(&|a| a.gm_class = v)));
        out.push(case(format!("announce accuracy={v}"), &mk(&|a| a.gm_accuracy = v)));
        out.push(case(format!("announce timesource={v}"), &mk(&|a| a.time_source = v)));
        out.push(case(format!("announce reserved={v}"), &mk(&|a| a.reserved = v)));
        let mkm = |f: &dyn Fn(&mut u8, &mut u8, &mut u8, &mut u8)| {
            let mut m = base_msg(MANAGEMENT);
            if let Body::Management { starting_hops, hops, action, reserved, .. } = &mut m.body {
                f(starting_hops, hops, action, reserved);
            }
            m
        };
        out.push(case(format!("management start_hops={v}"), &mkm(&|s, _, _, _| *s = v)));
        out.push(case(format!("management hops={v}"), &mkm(&|_, h, _, _| *h = v)));
        out.push(case(format!("management action={v}"), &mkm(&|_, _, a, _| *a = v)));
        out.push(case(format!("management reserved={v}"), &mkm(&|_, _, _, r| *r = v)));
    }
    // 4. 16-bit fields
    for v in vals16() {
        for &t in &DEFINED_TYPES {
            let mut m = base_msg(t);
            m.hdr.seq = v;
            out.push(case(format!("type={t:#x} seq={v:#x}"), &m));
            let mut m = base_msg(t);
            m.hdr.source.port = v;
            out.push(case(format!("type={t:#x} srcport={v:#x}"), &m));
            let mut m = base_msg(t);
            match &mut m.body {
                Body::PdelayResp { requester, .. }
                | Body::DelayResp { requester, .. }
                | Body::PdelayRespFollowUp { requester, .. } => requester.port = v,
                Body::Signaling { target } | Body::Management { target, .. } => target.port = v,
                Body::Announce(a) => a.steps_removed = v,
                _ => continue,
            }
            out.push(case(format!("type={t:#x} body16={v:#x}"), &m));
        }
        let mut m = base_msg(ANNOUNCE);
        if let Body::Announce(a) = &mut m.body {
            a.utc_offset = v as i16;
        }
        out.push(case(format!("announce utc={v:#x}"), &m));
        let mut m = base_msg(ANNOUNCE);
        if let Body::Announce(a) = &mut m.body {
            a.gm_variance = v;
        }
        out.push(case(format!("announce variance={v:#x}"), &m));
    }
    // 5. wide fields
    for &t in &DEFINED_TYPES {
        for b in wide(8) {
            let mut m = base_msg(t);
            m.hdr.correction = i64::from_be_bytes(b.clone().try_into().unwrap());
            out.push(case(format!("type={t:#x} correction={}", hex(&b)), &m));
            let mut m = base_msg(t);
            m.hdr.source.clock = b.clone().try_into().unwrap();
            out.push(case(format!("type={t:#x} srcclock={}", hex(&b)), &m));
            let mut m = base_msg(t);
            match &mut m.body {
                Body::PdelayResp { requester, .. }
                | Body::DelayResp { requester, .. }
                | Body::PdelayRespFollowUp { requester, .. } => requester.clock = b.clone().try_into().unwrap(),
                Body::Signaling { target } | Body::Management { target, .. } => target.clock = b.clone().try_into().unwrap(),
                Body::Announce(a) => a.gm_identity = b.clone().try_into().unwrap(),
                _ => continue,
            }
            out.push(case(format!("type={t:#x} bodyid={}", hex(&b)), &m));
        }
        for c in [i64::MIN, i64::MAX, -1, 1, 1 << 16, -(1 << 16), (1i64 << 47) - 1] {
            let mut m = base_msg(t);
            m.hdr.correction = c;
            out.push(case(format!("type={t:#x} correction={c}"), &m));
        }
        for b in wide(10) {
            let ts = Ts {
                secs: u64::from_be_bytes([0, 0, b[0], b[1], b[2], b[3], b[4], b[5]]),
                nanos: u32::from_be_bytes([b[6], b[7], b[8], b[9]]),
            };
            let mut m = base_msg(t);
            match &mut m.body {
                Body::Sync { origin } | Body::DelayReq { origin } | Body::PdelayReq { origin, .. } => *origin = ts,
                Body::FollowUp { precise_origin } => *precise_origin = ts,
                Body::PdelayResp { receipt, .. } => *receipt = ts,
                Body::DelayResp { receive, .. } => *receive = ts,
                Body::PdelayRespFollowUp { response_origin, .. } => *response_origin = ts,
                Body::Announce(a) => a.origin = ts,
                _ => continue,
            }
            out.push(case(format!("type={t:#x} ts={}", hex(&b)), &m));
        }
        if t == PDELAY_REQ {
            for b in wide(10) {
                let mut m = base_msg(t);
                if let Body::PdelayReq { reserved, .. } = &mut m.body {
                    *reserved = b.clone().try_into().unwrap();
                }
                out.push(case(format!("pdelayreq reserved={}", hex(&b)), &m));
            }
        }
    }
    // 6. TLV layouts
    let tlv_types: [u16; 12] =
        [0x0000, 0x0001, 0x0003, 0x0008, 0x0009, 0x2000, 0x2004, 0x4000, 0x7fff, 0x8000, 0x8001, 0xffff];
    let tlv_lens: [usize; 7] = [0, 1, 2, 3, 4, 7, 1000];
    let tlv_hosts: &[u8] = if tier == Tier::Thorough { &DEFINED_TYPES } else { &[ANNOUNCE, SIGNALING, SYNC] };
    for &t in tlv_hosts {
        // one TLV: type x len
        for &ty in &tlv_types {
            for &l in &tlv_lens {
                let m = base_msg(t).with_tlvs(vec![Tlv { typ: ty, value: vec![0xc3; l] }]);
                out.push(case(format!("type={t:#x} tlv1 ty={ty:#x} len={l}"), &m));
            }
        }
        // two and three TLVs over lengths (types from two classes)
        for &l1 in &tlv_lens {
            for &l2 in &tlv_lens {
                let m = base_msg(t).with_tlvs(vec![
                    Tlv { typ: 0x4000, value: vec![0xc1; l1] },
                    Tlv { typ: 0x8001, value: vec![0xc2; l2] },
                ]);
                out.push(case(format!("type={t:#x} tlv2 len={l1},{l2}"), &m));
                for &l3 in &[0usize, 2, 3] {
                    let m = base_msg(t).with_tlvs(vec![
                        Tlv { typ: 0x0008, value: vec![0xc1; l1] },
                        Tlv { typ: 0x4000, value: vec![0xc2; l2] },
                        Tlv { typ: 0x0003, value: vec![0xc3; l3] },
                    ]);
                    out.push(case(format!("type={t:#x} tlv3 len={l1},{l2},{l3}"), &m));
                }
            }
        }
        // truncated last TLV (declared value longer than present) and trailing bytes
        for &l in &[2usize, 4, 8] {
            for cut in 1..=l.min(4) {
                let mut m = base_msg(t).with_tlvs(vec![Tlv { typ: 0x4000, value: vec![0xc4; 2] }]);
                // second TLV header says l, but only l-cut bytes follow
                let mut tr = vec![0x40, 0x00];
                tr.extend_from_slice(&(l as u16).to_be_bytes());
                tr.extend(std::iter::repeat(0xc5).take(l - cut));
                m.trailing = tr;
                out.push(case(format!("type={t:#x} tlv truncated len={l} cut={cut}"), &m));
            }
        }
        for extra in 1..=4usize {
            for with_tlv in [false, true] {
                let mut m = base_msg(t);
                if with_tlv {
                    m.tlvs = vec![Tlv { typ: 0x4000, value: vec![0xc4; 2] }];
                }
                m.trailing = vec![0u8; extra];
                out.push(case(format!("type={t:#x} trailing={extra} after_tlv={with_tlv}"), &m));
                let mut m2 = m.clone();
                m2.trailing = vec![0xee; extra];
                out.push(case(format!("type={t:#x} trailing_ee={extra} after_tlv={with_tlv}"), &m2));
            }
        }
    }
    // 7. messageLength vs buffer length
    for &t in &DEFINED_TYPES {
        let full = encode(&base_msg(t).with_tlvs(vec![Tlv { typ: 0x4000, value: vec![0xc4; 6] }]));
        let body_end = 34 + body_len(t).unwrap();
        let n = full.len();
        let mut lens: Vec<usize> = vec![0, 1, 33, 34, 35, body_end - 1, body_end, body_end + 1, body_end + 3, body_end + 4, body_end + 5, n - 1, n, n + 1, n + 7, 65535];
        lens.sort();
        lens.dedup();
        for &declared in &lens {
            for &buflen in &[0usize, 1, 2, 33, 34, body_end - 1, body_end, body_end + 4, n - 1, n, n + 1, n + 40] {
                let mut b = full.clone();
                b.resize(buflen.max(n), 0xdd);
                b.truncate(buflen);
                if b.len() >= 4 {
                    b[2..4].copy_from_slice(&(declared as u16).to_be_bytes());
                }
                out.push(Case { label: format!("type={t:#x} declared={declared} buflen={buflen}"), bytes: b });
            }
        }
    }
    // mutation lattice: every octet of a well-formed frame of every type replaced by boundary values
    // (quick) or by every value (thorough); thorough also every pair of octets with four values
    // each, and every 16-bit value in messageLength, sequenceId and the first TLV's lengthField
    {
        let mut bases: Vec<(String, Vec<u8>)> = DEFINED_TYPES.iter().map(|&t| (format!("type={t:#x}"), encode(&base_msg(t)))).collect();
        let mut with_tlvs = base_msg(ANNOUNCE);
        with_tlvs.tlvs = vec![Tlv { typ: TLV_PATH_TRACE, value: [[0xc1u8; 8], [0xc2u8; 8]].concat() }, Tlv { typ: 0x4000, value: vec![1, 2, 3, 4, 5, 6] }];
        bases.push(("announce+tlvs".into(), encode(&with_tlvs)));
        let mut sig = base_msg(SIGNALING);
        sig.tlvs = vec![Tlv { typ: 0x0003, value: vec![0x11; 10] }];
        bases.push(("signaling+tlv".into(), encode(&sig)));
        for (name, base) in &bases {
            for i in 0..base.len() {
                let o = base[i];
                let vals: Vec<u8> = (0..=255).collect();
                for v in vals {
                    if v != o {
                        let mut b = base.clone();
                        b[i] = v;
                        out.push(Case { label: format!("{name} octet[{i}]={v:#x}"), bytes: b });
                    }
                }
            }
            if tier == Tier::Thorough {
                for i in 0..base.len() {
                    for j in (i + 1)..base.len() {
                        for vi in [0u8, 0xff, base[i] ^ 1, base[i] ^ 0x80] {
                            for vj in [0u8, 0xff, base[j] ^ 1, base[j] ^ 0x80] {
                                let mut b = base.clone();
                                b[i] = vi;
                                b[j] = vj;
                                out.push(Case { label: format!("{name} octet[{i}]={vi:#x} octet[{j}]={vj:#x}"), bytes: b });
                            }
                        }
                    }
                }
                let mut offs = vec![2usize, 30];
                if base.len() > 68 {
                    offs.push(66); // lengthField of the first TLV of an Announce
                }
                for off in offs {
                    for v in 0..=65535u16 {
                        let mut b = base.clone();
                        b[off..off + 2].copy_from_slice(&v.to_be_bytes());
                        out.push(Case { label: format!("{name} u16[{off}]={v:#x}"), bytes: b });
                    }
                }
            }
        }
    }
    if tier == Tier::Thorough {
        // two-field products for header fields (offset/width interactions)
        for &t in &DEFINED_TYPES {
            for a in vals16() {
                for b in vals16() {
                    let mut m = base_msg(t);
                    m.hdr.seq = a;
                    m.hdr.source.port = b;
                    out.push(case(format!("type={t:#x} seq={a:#x} srcport={b:#x}"), &m));
                }
            }
            for d in [0u8, 1, 0x7f, 0x80, 0xff] {
                for s in [0u8, 1, 0x7f, 0x80, 0xff] {
                    for ms in [0u8, 1, 0xf] {
                        for li in [0u8, 1, 0x7f, 0x80, 0xff] {
                            let mut m = base_msg(t);
                            m.hdr.domain = d;
                            m.hdr.minor_sdo = s;
                            m.hdr.major_sdo = ms;
                            m.hdr.log_interval = li as i8;
                            out.push(case(format!("type={t:#x} dom={d} msdo={s} Msdo={ms} li={li}"), &m));
                        }
                    }
                }
            }
        }
    }
    out
}

/// what the reference says about acceptance, given statime's documented choices:
/// unknown message types are errors; versionPTP is screened by the port, not by
/// the codec.
fn reference_accepts(bytes: &[u8]) -> Result<Msg, DecodeErr> {
    decode(bytes)
}

fn mismatch(v: &mut Vec<String>, what: &str, got: impl std::fmt::Debug + PartialEq, want: impl std::fmt::Debug, eq: bool) {
    let _ = &got;
    if !eq {
        v.push(format!("{what}: statime {:?} reference {:?}", got, want));
    }
}

macro_rules! cmp {
    ($v:expr, $what:expr, $got:expr, $want:expr) => {{
        let g = $got;
        let w = $want;
        if g != w {
            $v.push(format!("{}: statime {:?} reference {:?}", $what, g, w));
        }
    }};
}

fn pid_of(d: &Dbg) -> Pid {
    let c = d.get("clock_identity.0").bytes();
    Pid { clock: c.try_into().unwrap(), port: d.get("port_number").num() }
}
fn ts_of(d: &Dbg) -> Ts {
    Ts { secs: d.get("seconds").num(), nanos: d.get("nanos").num() }
}

/// oracle (4): read every field out of the Debug tree of the decoded message and
/// compare with the reference decode.  Returns (field, detail) mismatches.
pub fn compare_fields(d: &Dbg, r: &Msg) -> Vec<String> {
    let mut v = vec![];
    let m = d.get("inner");
    let h = m.get("header");
    cmp!(v, "header.sdoId", h.get("sdo_id.0").num::<u16>(), r.hdr.sdo());
    cmp!(v, "header.versionPTP", h.get("version.major").num::<u8>(), r.hdr.version);
    cmp!(v, "header.minorVersionPTP", h.get("version.minor").num::<u8>(), r.hdr.minor_version);
    cmp!(v, "header.domainNumber", h.get("domain_number").num::<u8>(), r.hdr.domain);
    let flags = [
        ("alternate_master_flag", F_ALT_MASTER),
        ("two_step_flag", F_TWO_STEP),
        ("unicast_flag", F_UNICAST),
        ("ptp_profile_specific_1", F_PROFILE1),
        ("ptp_profile_specific_2", F_PROFILE2),
        ("leap61", F_LEAP61),
        ("leap59", F_LEAP59),
        ("current_utc_offset_valid", F_UTC_VALID),
        ("ptp_timescale", F_PTP_TIMESCALE),
        ("time_tracable", F_TIME_TRACEABLE),
        ("frequency_tracable", F_FREQ_TRACEABLE),
        ("synchronization_uncertain", F_SYNC_UNCERTAIN),
    ];
    for (name, f) in flags {
        cmp!(v, format!("header.flag.{name}"), h.get(name).boolean(), r.hdr.flag(f));
    }
    cmp!(v, "header.correctionField", fixed_bits(h.get("correction_field.0").atom(), 16), r.hdr.correction as i128);
    cmp!(v, "header.sourcePortIdentity", pid_of(h.get("source_port_identity")), r.hdr.source.clone());
    cmp!(v, "header.sequenceId", h.get("sequence_id").num::<u16>(), r.hdr.seq);
    cmp!(v, "header.logMessageInterval", h.get("log_message_interval").num::<i8>(), r.hdr.log_interval);
    let b = m.get("body");
    let inner = b.child("0").unwrap_or(b);
    let variant = b.name().to_string();
    let want_variant = match r.body {
        Body::Sync { .. } => "Sync",
        Body::DelayReq { .. } => "DelayReq",
        Body::PdelayReq { .. } => "PDelayReq",
        Body::PdelayResp { .. } => "PDelayResp",
        Body::FollowUp { .. } => "FollowUp",
        Body::DelayResp { .. } => "DelayResp",
        Body::PdelayRespFollowUp { .. } => "PDelayRespFollowUp",
        Body::Announce(_) => "Announce",
        Body::Signaling { .. } => "Signaling",
        Body::Management { .. } => "Management",
        Body::Raw(_) => "?",
    };
    cmp!(v, "messageType", variant.as_str(), want_variant);
    if variant != want_variant {
        return v;
    }
    match &r.body {
        Body::Sync { origin } | Body::DelayReq { origin } | Body::PdelayReq { origin, .. } => {
            cmp!(v, "body.originTimestamp", ts_of(inner.get("origin_timestamp")), *origin);
        }
        Body::FollowUp { precise_origin } => {
            cmp!(v, "body.preciseOriginTimestamp", ts_of(inner.get("precise_origin_timestamp")), *precise_origin);
        }
        Body::PdelayResp { receipt, requester } => {
            cmp!(v, "body.requestReceiptTimestamp", ts_of(inner.get("request_receive_timestamp")), *receipt);
            cmp!(v, "body.requestingPortIdentity", pid_of(inner.get("requesting_port_identity")), requester.clone());
        }
        Body::DelayResp { receive, requester } => {
            cmp!(v, "body.receiveTimestamp", ts_of(inner.get("receive_timestamp")), *receive);
            cmp!(v, "body.requestingPortIdentity", pid_of(inner.get("requesting_port_identity")), requester.clone());
        }
        Body::PdelayRespFollowUp { response_origin, requester } => {
            cmp!(v, "body.responseOriginTimestamp", ts_of(inner.get("response_origin_timestamp")), *response_origin);
            cmp!(v, "body.requestingPortIdentity", pid_of(inner.get("requesting_port_identity")), requester.clone());
        }
        Body::Announce(a) => {
            cmp!(v, "announce.originTimestamp", ts_of(inner.get("origin_timestamp")), a.origin);
            cmp!(v, "announce.currentUtcOffset", inner.get("current_utc_offset").num::<i16>(), a.utc_offset);
            cmp!(v, "announce.grandmasterPriority1", inner.get("grandmaster_priority_1").num::<u8>(), a.gm_priority1);
            cmp!(v, "announce.grandmasterPriority2", inner.get("grandmaster_priority_2").num::<u8>(), a.gm_priority2);
            let q = inner.get("grandmaster_clock_quality");
            cmp!(v, "announce.clockClass", q.get("clock_class").num::<u8>(), a.gm_class);
            match accuracy_octet(q.get("clock_accuracy")) {
                Some(o) => cmp!(v, "announce.clockAccuracy", o, a.gm_accuracy),
                None => {
                    if accuracy_reserved(a.gm_accuracy) {
                        v.push(format!(
                            "announce.clockAccuracy(reserved-octet-collapse): statime {} reference {:#x}",
                            q.get("clock_accuracy").render(),
                            a.gm_accuracy
                        ));
                    } else {
                        v.push(format!(
                            "announce.clockAccuracy: statime {} reference {:#x}",
                            q.get("clock_accuracy").render(),
                            a.gm_accuracy
                        ));
                    }
                }
            }
            cmp!(v, "announce.offsetScaledLogVariance", q.get("offset_scaled_log_variance").num::<u16>(), a.gm_variance);
            cmp!(
                v,
                "announce.grandmasterIdentity",
                inner.get("grandmaster_identity.0").bytes(),
                a.gm_identity.to_vec()
            );
            cmp!(v, "announce.stepsRemoved", inner.get("steps_removed").num::<u16>(), a.steps_removed);
            match time_source_octet(inner.get("time_source")) {
                Some(o) => cmp!(v, "announce.timeSource", o, a.time_source),
                None => v.push(format!(
                    "announce.timeSource: statime {} reference {:#x}",
                    inner.get("time_source").render(),
                    a.time_source
                )),
            }
            // the embedded header copy must be the header
            cmp!(v, "announce.header-copy", inner.get("header").render(), h.render());
        }
        Body::Signaling { target } => {
            cmp!(v, "signaling.targetPortIdentity", pid_of(inner.get("target_port_identity")), target.clone());
        }
        Body::Management { target, starting_hops, hops, action, .. } => {
            cmp!(v, "management.targetPortIdentity", pid_of(inner.get("target_port_identity")), target.clone());
            cmp!(v, "management.startingBoundaryHops", inner.get("starting_boundary_hops").num::<u8>(), *starting_hops);
            cmp!(v, "management.boundaryHops", inner.get("boundary_hops").num::<u8>(), *hops);
            let nib = action & 0x0f;
            match action_nibble(inner.get("action")) {
                Some(o) => cmp!(v, "management.actionField", o, nib),
                None => {
                    if nib <= 4 {
                        v.push(format!(
                            "management.actionField: statime {} reference {:#x}",
                            inner.get("action").render(),
                            nib
                        ));
                    }
                    // nibble values 5..15 are reserved by 15.4.1.6 and print as `Reserved`: fine
                }
            }
        }
        Body::Raw(_) => {}
    }
    let sfx = m.get("suffix.bytes").bytes();
    cmp!(v, "tlv-suffix", hex(&sfx), hex(&encode_tlvs(&r.tlvs)));
    v
}

/// blank every bit/byte IEEE 1588 marks reserved (or that is derived from the type)
fn mask_reserved(m: &Msg) -> Msg {
    let mut m = m.clone();
    m.hdr.flags[0] &= DEFINED_FLAG_MASK[0];
    m.hdr.flags[1] &= DEFINED_FLAG_MASK[1];
    m.hdr.type_specific = [0; 4];
    m.hdr.control = None;
    match &mut m.body {
        Body::Announce(a) => a.reserved = 0,
        Body::PdelayReq { reserved, .. } => *reserved = [0; 10],
        Body::Management { action, reserved, .. } => {
            *action &= 0x0f;
            *reserved = 0;
        }
        _ => {}
    }
    m
}

fn field_of(s: &str) -> String {
    s.split(':').next().unwrap_or("").to_string()
}

pub fn check_case(c: &Case) -> Vec<Violation> {
    let mut out = vec![];
    let mut viol = |sig: String, msg: String| {
        out.push(Violation {
            signature: sig,
            message: format!("{msg} [case {}]", c.label),
            replay: json!({"label": c.label, "bytes": hex(&c.bytes)}),
        })
    };
    let reference = reference_accepts(&c.bytes);
    // (1) totality + acceptance
    let dec = catch(|| FuzzMessage::deserialize(&c.bytes).map(|m| format!("{:?}", m)).map_err(|e| e.to_string()));
    let dec = match dec {
        Err(p) => {
            viol(format!("deserialize:{}", p.signature()), format!("deserialize panicked: {}", p.message));
            return out;
        }
        Ok(d) => d,
    };
    match (&dec, &reference) {
        (Ok(_), Err(e)) => {
            viol(format!("accepts-malformed:{:?}", e), format!("statime accepts a frame the reference rejects ({e:?})"));
            return out;
        }
        (Err(e), Ok(r)) => {
            // classify
            let class = if r.tlvs.iter().any(|t| t.value.len() % 2 == 1) {
                // documented choice: odd TLV lengths are errors (IEEE 1588 14.1: lengthField is even)
                return out;
            } else if r.tlvs.last().map(|t| t.value.is_empty()).unwrap_or(false) {
                "final-zero-length-tlv".to_string()
            } else {
                format!("type-{}", type_name(r.hdr.msg_type))
            };
            viol(format!("rejects-wellformed:{class}"), format!("statime rejects ({e}) a frame the reference accepts"));
            return out;
        }
        (Err(_), Err(_)) => return out,
        (Ok(_), Ok(_)) => {}
    }
    let text = dec.unwrap();
    let r = reference.unwrap();
    let declared = r.hdr.length.unwrap() as usize;
    // bytes beyond the declared length never influence the result
    if c.bytes.len() > declared {
        let mut b2 = c.bytes.clone();
        for x in &mut b2[declared..] {
            *x = !*x;
        }
        let again = catch(|| FuzzMessage::deserialize(&b2).map(|m| format!("{:?}", m)).map_err(|e| e.to_string()));
        match again {
            Ok(Ok(t2)) if t2 == text => {}
            other => viol(
                "reads-past-declared-length".into(),
                format!("changing bytes after messageLength changed the result: {:?}", other.map(|r| r.map(|s| s.len()))),
            ),
        }
    }
    // (4) field placement
    let tree = match dbg::parse(&text) {
        Ok(t) => t,
        Err(e) => {
            eprintln!("machinery error: cannot parse Debug output: {e}\n{text}");
            std::process::exit(2);
        }
    };
    for mm in compare_fields(&tree, &r) {
        viol(format!("field:{}", field_of(&mm)), mm);
    }
    // (2) re-serialize: exact declared length, into an exact and a larger buffer
    for extra in [0usize, 64] {
        let res = catch(|| {
            let m = FuzzMessage::deserialize(&c.bytes).unwrap();
            let mut buf = vec![0xaau8; declared + extra];
            let n = m.serialize(&mut buf).map_err(|e| e.to_string())?;
            Ok::<_, String>((n, buf))
        });
        match res {
            Err(p) => viol(format!("serialize:{}", p.signature()), format!("serialize panicked: {}", p.message)),
            Ok(Err(e)) => viol("serialize-error".into(), format!("serialize failed: {e}")),
            Ok(Ok((n, buf))) => {
                if n != declared {
                    viol("reserialize-length".into(), format!("re-serialized length {n} != declared {declared}"));
                    continue;
                }
                let outb = &buf[..n];
                // header length field must say the same
                match FuzzMessage::deserialize(outb) {
                    Ok(m2) => {
                        let t2 = format!("{:?}", m2);
                        if t2 != text {
                            viol("roundtrip-not-equal".into(), "decode(encode(decode(x))) != decode(x)".into());
                        }
                        let m1 = FuzzMessage::deserialize(&c.bytes).unwrap();
                        if m1 != m2 {
                            viol("roundtrip-not-equal".into(), "PartialEq: decode(encode(m)) != m".into());
                        }
                    }
                    Err(e) => {
                        let class = if r.tlvs.last().map(|t| t.value.is_empty()).unwrap_or(false) {
                            "final-zero-length-tlv"
                        } else {
                            "other"
                        };
                        viol(format!("own-output-undecodable:{class}"), format!("statime cannot decode its own output: {e}"));
                    }
                }
                // (3) reference view of output == reference view of input on defined fields
                match decode(outb) {
                    Ok(r2) => {
                        let a = mask_reserved(&r);
                        let b = mask_reserved(&r2);
                        if a != b {
                            // find the first differing field for the signature
                            let what = diff_field(&a, &b);
                            viol(format!("reencode-changes:{what}"), format!("re-encoding changed defined field {what}: in {} out {}", hex(&c.bytes[..declared]), hex(outb)));
                        }
                        // control field must follow table 42 on output
                        if r2.hdr.control != Some(control_for(r2.hdr.msg_type)) {
                            viol("reencode-control".into(), format!("controlField {:?} does not match table 42", r2.hdr.control));
                        }
                    }
                    Err(e) => viol("output-rejected-by-reference".into(), format!("reference rejects statime output: {e:?}")),
                }
            }
        }
    }
    out
}

fn diff_field(a: &Msg, b: &Msg) -> String {
    if a.hdr != b.hdr {
        let (x, y) = (&a.hdr, &b.hdr);
        if x.major_sdo != y.major_sdo || x.minor_sdo != y.minor_sdo {
            return "header.sdoId".into();
        }
        if x.msg_type != y.msg_type {
            return "header.messageType".into();
        }
        if x.version != y.version || x.minor_version != y.minor_version {
            return "header.version".into();
        }
        if x.length != y.length {
            return "header.messageLength".into();
        }
        if x.domain != y.domain {
            return "header.domainNumber".into();
        }
        if x.flags != y.flags {
            return "header.flags".into();
        }
        if x.correction != y.correction {
            return "header.correctionField".into();
        }
        if x.source != y.source {
            return "header.sourcePortIdentity".into();
        }
        if x.seq != y.seq {
            return "header.sequenceId".into();
        }
        if x.log_interval != y.log_interval {
            return "header.logMessageInterval".into();
        }
        return "header.?".into();
    }
    if a.body != b.body {
        if let (Body::Announce(x), Body::Announce(y)) = (&a.body, &b.body) {
            if x.gm_accuracy != y.gm_accuracy {
                let mut x2 = x.clone();
                x2.gm_accuracy = y.gm_accuracy;
                if &x2 == y && accuracy_reserved(x.gm_accuracy) {
                    return "announce.clockAccuracy(reserved-octet-collapse)".into();
                }
                return "announce.clockAccuracy".into();
            }
        }
        if let (
            Body::Management { target: t1, starting_hops: s1, hops: h1, action: a1, .. },
            Body::Management { target: t2, starting_hops: s2, hops: h2, action: a2, .. },
        ) = (&a.body, &b.body)
        {
            if t1 != t2 {
                return "management.targetPortIdentity".into();
            }
            if s1 != s2 {
                return "management.startingBoundaryHops".into();
            }
            if h1 != h2 {
                return "management.boundaryHops".into();
            }
            if a1 != a2 {
                if *a1 >= 5 {
                    return "management.actionField(reserved-value-collapse)".into();
                }
                return "management.actionField".into();
            }
        }
        return format!("body.{}", type_name(a.hdr.msg_type));
    }
    if a.tlvs != b.tlvs {
        return "tlvs".into();
    }
    "trailing".into()
}

pub fn run(tier: Tier) -> i32 {
    let mut rep = Reporter::new("C04", tier, "exploration");
    let cases = generate(tier);
    let results: Vec<(bool, Vec<Violation>)> = cases
        .par_iter()
        .map(|c| {
            let accepted = decode(&c.bytes).is_ok();
            (accepted, check_case(c))
        })
        .collect();
    let mut distinct = std::collections::BTreeSet::new();
    for (c, (acc, _)) in cases.iter().zip(&results) {
        if *acc {
            distinct.insert(c.bytes.clone());
        }
    }
    for (_, v) in results {
        rep.violations(v);
    }
    // the encoder as the ports use it: a real boundary clock re-emits one to three TLVs of every
    // combination of sizes (with and without its own PATH_TRACE in front); each emitted Announce is
    // decoded by the reference codec and must carry exactly those TLVs (C15's reference queue)
    let mut emitted = 0u64;
    {
        use simcore::world::*;
        let sizes: [usize; 6] = [0, 2, 4, 10, 12, 14];
        let mut lists: Vec<Vec<usize>> = vec![];
        for a in sizes {
            lists.push(vec![a]);
            for b in sizes {
                lists.push(vec![a, b]);
                if tier == Tier::Thorough || (a + b) % 3 == 0 {
                    for c in sizes {
                        lists.push(vec![a, b, c]);
                    }
                }
            }
        }
        for path_trace in [false, true] {
            let sys = crate::c15::world(2, path_trace, crate::c15::Prov::Daemon, false);
            let parent = sys.cfg.peers[0].clone();
            let res: Vec<Vec<Violation>> = lists
                .par_iter()
                .map(|l| {
                    let tlvs: Vec<Tlv> = l.iter().enumerate().map(|(i, n)| Tlv { typ: 0x4000 + i as u16, value: vec![0xa0 + i as u8; *n] }).collect();
                    let mut h = vec![crate::c15::ann_with(&parent, 500, tlvs)];
                    h.extend(crate::c15::tann_all(2, 2));
                    let mut v = sys.run_all_judged(&h).violations;
                    for x in &mut v {
                        x.signature = format!("emitted-announce:{}", x.signature);
                        x.message = format!("{} [boundary clock (path trace {path_trace}) re-emitting TLVs of value lengths {:?}]", x.message, l);
                        x.replay = json!({"kind": "emitted", "path_trace": path_trace, "lengths": l});
                    }
                    v
                })
                .collect();
            emitted += res.len() as u64;
            for v in res {
                rep.violations(v);
            }
        }
    }
    rep.cover("emitted_announce_cases", json!(emitted));
    rep.cover("evaluations", json!(cases.len() as u64 + emitted));
    rep.cover("distinct_nontrivial", json!(distinct.len()));
    rep.cover(
        "rule",
        json!("byte strings produced by the independent reference encoder over the lattice of DESIGN C04 (type nibbles, all 2^12 defined flag combinations, every value of each 8-bit field, boundary+single-bit values of 16-bit fields, zero/ones/single-byte patterns of wide fields, TLV layouts, messageLength x buffer length), plus the mutation lattice (every octet of a well-formed frame of every type replaced by every value; thorough: every pair of octets x 4 x 4 values, every 16-bit value of messageLength, sequenceId and a TLV lengthField); non-trivial = distinct byte strings the reference accepts (these go through all five oracles), the rest only through totality/acceptance"),
    );
    rep.cover("exhaustive", json!(true));
    rep.cover(
        "samples",
        json!(cases.iter().step_by(cases.len() / 6 + 1).map(|c| json!({"label": c.label, "bytes": hex(&c.bytes)})).collect::<Vec<_>>()),
    );
    rep.assume("refcodec (simcore/src/refcodec.rs, refnames.rs) is a correct reading of IEEE 1588-2019 clause 13/14/15.4.1");
    rep.assume("documented choices mirrored: unknown message types and odd TLV lengths are decode errors; versionPTP is screened by the port, not the codec");
    rep.finish()
}

pub fn replay(r: &serde_json::Value) {
    if r["kind"] == "emitted" {
        println!("emitted-Announce case {r}: rerun ./check C04 quick (the case is re-derived from the size lattice); the same history can be replayed under C15");
        return;
    }
    let c = Case { label: r["label"].as_str().unwrap_or("").to_string(), bytes: unhex(r["bytes"].as_str().unwrap()) };
    println!("case {} bytes {}", c.label, hex(&c.bytes));
    println!("reference: {:?}", decode(&c.bytes));
    let d = catch(|| FuzzMessage::deserialize(&c.bytes).map(|m| format!("{:?}", m)).map_err(|e| e.to_string()));
    println!("statime:   {:?}", d);
    for v in check_case(&c) {
        println!("VIOLATION {} :: {}", v.signature, v.message);
    }
}

#[allow(dead_code)]
fn unused() {
    let mut v = vec![];
    mismatch(&mut v, "", 0, 0, true);
}
