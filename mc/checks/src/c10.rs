//! C10 — master-side messages carry exact timestamps and consistent identifiers.
//! (a) E3 lattices of transmit/receive timestamps and request headers on real
//! master ports, (b) 65 540-emission histories per message type, (c) a frame
//! monitor riding on the E1 exploration of the C08 worlds.

use rayon::prelude::*;
use serde_json::json;
use simcore::harness::*;
use simcore::refcodec::{self as rc, Body, Hdr, Msg, Pid, Ts};
use simcore::report::{catch, Reporter, Tier, Violation};
use simcore::scen::*;
use simcore::world::*;
use statime::fuzz::FuzzMessage;

use crate::c08::{build, world_defs};

const NSB: u128 = 1 << 32;

fn times(tier: Tier) -> Vec<u128> {
    let mut v = vec![];
    let secs: Vec<u128> = if tier == Tier::Thorough {
        vec![0, 1, (1 << 32) - 1, 1 << 32, 18_446_744_073, 18_446_744_074, (1 << 48) - 1]
    } else {
        vec![0, 1, 1 << 32, 18_446_744_074, (1 << 48) - 1]
    };
    for s in secs {
        for ns in [0u128, 1, 999_999_999] {
            for f in [0u128, 1, 1 << 16, 1 << 31, (1 << 32) - 1] {
                v.push((s * 1_000_000_000 + ns) * NSB + f);
            }
        }
    }
    v
}

fn spec(p2p: bool, minor: u8) -> NodeSpec {
    let mut n = NodeSpec::default();
    n.domain = 5;
    n.sdo = 0x123;
    n.identity = [0x1a, 0x2b, 0x3c, 0x4d, 0x5e, 0x6f, 0x70, 0x81];
    n.ports = vec![PortSpec { p2p, minor, log_delay: 3, ..Default::default() }];
    n
}

/// checks that hold for every frame a port emits
pub fn frame_rules(bytes: &[u8], own: &Pid, domain: u8, sdo: u16, minor: u8) -> Vec<(String, String)> {
    let mut v = vec![];
    if bytes.len() > statime::port::MAX_DATA_LEN {
        v.push(("frame-too-long".into(), format!("{} bytes", bytes.len())));
    }
    match rc::decode(bytes) {
        Err(e) => v.push(("frame-undecodable-by-reference".into(), format!("{e:?}: {}", hex(bytes)))),
        Ok(m) => {
            if m.hdr.length != Some(bytes.len() as u16) {
                v.push(("frame-length-field".into(), format!("messageLength {:?} but {} bytes handed to the host", m.hdr.length, bytes.len())));
            }
            if m.hdr.source != *own {
                v.push(("frame-source-identity".into(), format!("{:?} instead of {:?}", m.hdr.source, own)));
            }
            if m.hdr.domain != domain || m.hdr.sdo() != sdo {
                v.push(("frame-domain-sdo".into(), format!("domain {} sdo {:#x}", m.hdr.domain, m.hdr.sdo())));
            }
            if m.hdr.version != 2 || m.hdr.minor_version != minor {
                v.push(("frame-version".into(), format!("{}.{}", m.hdr.version, m.hdr.minor_version)));
            }
            if m.hdr.control != Some(rc::control_for(m.hdr.msg_type)) {
                v.push(("frame-control-field".into(), format!("{:?}", m.hdr.control)));
            }
        }
    }
    match catch(|| FuzzMessage::deserialize(bytes).is_ok()) {
        Ok(true) => {}
        Ok(false) => v.push(("frame-undecodable-by-own-parser".into(), hex(bytes))),
        Err(p) => v.push(("frame-own-parser-panics".into(), p.message)),
    }
    v
}

fn frames_of(acts: &[Act]) -> Vec<(bool, Vec<u8>)> {
    acts.iter()
        .filter_map(|a| match a {
            Act::SendEvent { data, .. } => Some((true, data.clone())),
            Act::SendGeneral { data, .. } => Some((false, data.clone())),
            _ => None,
        })
        .collect()
}

pub struct Out {
    pub evals: u64,
    pub v: Vec<Violation>,
}
impl Out {
    fn push(&mut self, sig: &str, msg: String, replay: serde_json::Value) {
        if !self.v.iter().any(|x| x.signature == sig) {
            self.v.push(Violation { signature: sig.to_string(), message: msg, replay });
        }
    }
}

/// floor of a 2^-32 ns time to (wire timestamp, 2^-16 ns remainder)
fn split(t: u128) -> (Ts, i64) {
    let ns = t >> 32;
    (Ts::from_ns(ns), ((t & 0xffff_ffff) >> 16) as i64)
}

fn lattice_sync(tier: Tier) -> Out {
    let mut out = Out { evals: 0, v: vec![] };
    for minor in [0u8, 1] {
        let sp = spec(false, minor);
        let res: Vec<Vec<(String, String, serde_json::Value)>> = times(tier)
            .par_iter()
            .map(|&t| {
                let mut viol = vec![];
                let replay = json!({"kind": "sync", "minor": minor, "t": t.to_string()});
                with_node::<RecFilter, _>(&sp, |_| RecCfg(Default::default(), false), |node| {
                    let own = own_pid(node, 0);
                    let _ = receipt_timeout(node, 0);
                    // two Syncs so that the Follow_Up must carry the id of *its* Sync
                    let mut a1 = sync_timer(node, 0);
                    let f1 = frames_of(&a1);
                    let (c1, s1) = take_ctx(&mut a1).expect("harness: no Sync");
                    let mut a2 = sync_timer(node, 0);
                    let (c2, s2) = take_ctx(&mut a2).expect("harness: no Sync");
                    let (m1, m2) = (rc::decode(&s1).unwrap(), rc::decode(&s2).unwrap());
                    if f1.iter().filter(|f| f.0).count() != 1 {
                        viol.push(("sync-action-set".into(), format!("{} event sends", f1.len()), replay.clone()));
                    }
                    if m2.hdr.seq != m1.hdr.seq.wrapping_add(1) {
                        viol.push(("sync-sequence".into(), format!("{} then {}", m1.hdr.seq, m2.hdr.seq), replay.clone()));
                    }
                    if !m1.hdr.flag(rc::F_TWO_STEP) {
                        viol.push(("sync-not-two-step".into(), String::new(), replay.clone()));
                    }
                    // timestamps reported in reverse order
                    for (ctx, sm, tt) in [(c2, &m2, t), (c1, &m1, t ^ 0x1_0000)] {
                        let r = catch(|| collect(node.port(0).handle_send_timestamp(ctx, time_bits(tt))));
                        let acts = match r {
                            Ok(a) => a,
                            Err(_) => continue, // C03's
                        };
                        let fr = frames_of(&acts);
                        if fr.len() != 1 || fr[0].0 {
                            viol.push(("followup-count".into(), format!("{} frames for one transmit timestamp", fr.len()), replay.clone()));
                            continue;
                        }
                        for (s, m) in frame_rules(&fr[0].1, &own, 5, 0x123, minor) {
                            viol.push((s, m, replay.clone()));
                        }
                        let Ok(m) = rc::decode(&fr[0].1) else { continue };
                        let Body::FollowUp { precise_origin } = m.body else {
                            viol.push(("followup-type".into(), format!("{:?}", m.body), replay.clone()));
                            continue;
                        };
                        if m.hdr.seq != sm.hdr.seq {
                            viol.push(("followup-sequence".into(), format!("Follow_Up {} for Sync {}", m.hdr.seq, sm.hdr.seq), replay.clone()));
                        }
                        let (wts, rem) = split(tt);
                        if precise_origin != wts || m.hdr.correction != rem {
                            viol.push((
                                "followup-timestamp".into(),
                                format!("t = {tt} (2^-32 ns): origin {:?} correction {} expected {:?} {}", precise_origin, m.hdr.correction, wts, rem),
                                replay.clone(),
                            ));
                        }
                        if m.hdr.flag(rc::F_TWO_STEP) {
                            viol.push(("followup-two-step-flag".into(), String::new(), replay.clone()));
                        }
                    }
                });
                viol
            })
            .collect();
        for r in res {
            out.evals += 1;
            for (s, m, rp) in r {
                out.push(&s, m, rp);
            }
        }
    }
    out
}

fn req_headers() -> Vec<Hdr> {
    let mut v = vec![];
    let base = Hdr { domain: 5, major_sdo: 1, minor_sdo: 0x23, source: Pid { clock: [0xde, 0xad, 0, 0, 0, 0, 0xbe, 0xef], port: 0x4321 }, seq: 0x8001, log_interval: 0x7f, ..Default::default() };
    v.push(base.clone());
    let big = ((1i64 << 47) - 1) << 16;
    for c in [1i64, -1, 1 << 16, -(1 << 16), big, -big, i64::MIN, i64::MAX, 0x7fff_ffff_ffff_0000, 0x1234_5678] {
        let mut h = base.clone();
        h.correction = c;
        v.push(h);
    }
    for (clock, port) in [([0u8; 8], 0u16), ([0xff; 8], 0xffff), ([0x1a, 0x2b, 0x3c, 0x4d, 0x5e, 0x6f, 0x70, 0x81], 1), ([0x1a, 0x2b, 0x3c, 0x4d, 0x5e, 0x6f, 0x70, 0x81], 2)] {
        let mut h = base.clone();
        h.source = Pid { clock, port };
        v.push(h);
    }
    for s in [0u16, 1, 0x7fff, 0x8000, 0xffff] {
        let mut h = base.clone();
        h.seq = s;
        v.push(h);
    }
    for oct in 0..2 {
        for bit in 0..8 {
            let mut h = base.clone();
            h.flags[oct] = 1 << bit;
            v.push(h);
        }
    }
    let mut h = base.clone();
    h.flags = [0xff, 0xff];
    h.minor_version = 0;
    h.log_interval = -7;
    h.type_specific = [9, 9, 9, 9];
    v.push(h);
    v
}

pub fn lattice_requests(tier: Tier) -> Out {
    let mut out = Out { evals: 0, v: vec![] };
    let hdrs = req_headers();
    let ts = times(tier);
    let cases: Vec<(usize, u128, bool)> = (0..hdrs.len()).flat_map(|h| ts.iter().map(move |&t| (h, t))).flat_map(|(h, t)| [(h, t, false), (h, t, true)]).collect();
    let res: Vec<Vec<(String, String, serde_json::Value)>> = cases
        .par_iter()
        .map(|&(hi, t, pdelay)| {
            let h = &hdrs[hi];
            let mut viol = vec![];
            let replay = json!({"kind": "request", "header": hi, "t": t.to_string(), "pdelay": pdelay});
            let sp = spec(pdelay, 1);
            with_node::<RecFilter, _>(&sp, |_| RecCfg(Default::default(), false), |node| {
                let own = own_pid(node, 0);
                let _ = receipt_timeout(node, 0);
                if !pdelay {
                    let req = rc::encode(&Msg::new(h.clone(), Body::DelayReq { origin: Ts { secs: 77, nanos: 5 } }));
                    let Ok(acts) = catch(|| event(node, 0, &req, time_bits(t))) else { return };
                    let fr = frames_of(&acts);
                    if fr.len() != 1 || fr[0].0 {
                        viol.push(("delayresp-count".into(), format!("{} frames", fr.len()), replay.clone()));
                        return;
                    }
                    for (s, m) in frame_rules(&fr[0].1, &own, 5, 0x123, h.minor_version) {
                        // the response header is derived from the request header: version is the requester's
                        if s == "frame-version" {
                            continue;
                        }
                        viol.push((s, m, replay.clone()));
                    }
                    let Ok(m) = rc::decode(&fr[0].1) else { return };
                    let Body::DelayResp { receive, requester } = &m.body else {
                        viol.push(("delayresp-type".into(), format!("{:?}", m.body), replay.clone()));
                        return;
                    };
                    if *requester != h.source {
                        viol.push(("delayresp-requester".into(), format!("{:?} instead of {:?}", requester, h.source), replay.clone()));
                    }
                    if m.hdr.seq != h.seq {
                        viol.push(("delayresp-sequence".into(), format!("{} instead of {}", m.hdr.seq, h.seq), replay.clone()));
                    }
                    if m.hdr.log_interval != 3 {
                        viol.push(("delayresp-log-interval".into(), format!("{}", m.hdr.log_interval), replay.clone()));
                    }
                    if m.hdr.flag(rc::F_TWO_STEP) {
                        viol.push(("delayresp-two-step-flag".into(), String::new(), replay.clone()));
                    }
                    // receive timestamp + correction = receive time + request correction (2^-16 ns units)
                    let got = (receive.to_ns() as i128) * 65536 + m.hdr.correction as i128;
                    let want = ((t >> 16) as i128) + h.correction as i128;
                    let (_, rem) = split(t);
                    let representable = (h.correction as i128 + rem as i128) <= i64::MAX as i128;
                    if representable && got != want {
                        viol.push((
                            "delayresp-timestamp".into(),
                            format!("receive {:?} correction {} for receive time {t} and request correction {}: off by {} units of 2^-16 ns", receive, m.hdr.correction, h.correction, got - want),
                            replay.clone(),
                        ));
                    }
                    if !representable && m.hdr.correction < 0 {
                        viol.push(("delayresp-correction-wrapped".into(), format!("{}", m.hdr.correction), replay.clone()));
                    }
                } else {
                    let req = rc::encode(&Msg::new(h.clone(), Body::PdelayReq { origin: Ts::default(), reserved: [0; 10] }));
                    let Ok(mut acts) = catch(|| event(node, 0, &req, time_bits(t))) else { return };
                    let fr = frames_of(&acts);
                    if fr.len() != 1 || !fr[0].0 {
                        viol.push(("pdelayresp-count".into(), format!("{} frames", fr.len()), replay.clone()));
                        return;
                    }
                    for (s, m) in frame_rules(&fr[0].1, &own, 5, 0x123, 1) {
                        viol.push((s, m, replay.clone()));
                    }
                    let Ok(m) = rc::decode(&fr[0].1) else { return };
                    let Body::PdelayResp { receipt, requester } = &m.body else {
                        viol.push(("pdelayresp-type".into(), format!("{:?}", m.body), replay.clone()));
                        return;
                    };
                    if *requester != h.source || m.hdr.seq != h.seq {
                        viol.push(("pdelayresp-echo".into(), format!("requester {:?} seq {}", requester, m.hdr.seq), replay.clone()));
                    }
                    if *receipt != split(t).0 {
                        viol.push(("pdelayresp-timestamp".into(), format!("{:?} for receive time {t}", receipt), replay.clone()));
                    }
                    if !m.hdr.flag(rc::F_TWO_STEP) {
                        viol.push(("pdelayresp-not-two-step".into(), String::new(), replay.clone()));
                    }
                    // follow-up after the transmit timestamp
                    let Some((ctx, _)) = take_ctx(&mut acts) else { return };
                    let t3 = t ^ 0x2_0001;
                    let Ok(acts) = catch(|| collect(node.port(0).handle_send_timestamp(ctx, time_bits(t3)))) else { return };
                    let fr = frames_of(&acts);
                    if fr.len() != 1 || fr[0].0 {
                        viol.push(("pdelayfup-count".into(), format!("{} frames", fr.len()), replay.clone()));
                        return;
                    }
                    for (s, m) in frame_rules(&fr[0].1, &own, 5, 0x123, 1) {
                        viol.push((s, m, replay.clone()));
                    }
                    let Ok(m) = rc::decode(&fr[0].1) else { return };
                    let Body::PdelayRespFollowUp { response_origin, requester } = &m.body else {
                        viol.push(("pdelayfup-type".into(), format!("{:?}", m.body), replay.clone()));
                        return;
                    };
                    if *requester != h.source || m.hdr.seq != h.seq {
                        viol.push(("pdelayfup-echo".into(), format!("requester {:?} seq {}", requester, m.hdr.seq), replay.clone()));
                    }
                    if *response_origin != split(t3).0 {
                        viol.push(("pdelayfup-timestamp".into(), format!("{:?} for transmit time {t3}", response_origin), replay.clone()));
                    }
                }
            });
            viol
        })
        .collect();
    for r in res {
        out.evals += 1;
        for (s, m, rp) in r {
            out.push(&s, m, rp);
        }
    }
    out
}

/// Pdelay_Req is answered in every port state
fn pdelay_in_every_state() -> Out {
    let mut out = Out { evals: 0, v: vec![] };
    for (name, class, seed) in [
        ("listening", 248u8, vec![]),
        ("master", 248, vec![Ev::T(0, Timer::Receipt)]),
        ("slave", 248, vec![Ev::Ann(0, 0), Ev::Ann(0, 0), Ev::Bmca]),
        ("passive", 6, vec![Ev::Ann(0, 0), Ev::Ann(0, 0), Ev::Bmca]),
        ("faulty", 248, vec![Ev::T(0, Timer::Delay), Ev::TxTs(0), Ev::PdelayResp(0, 0, true, true), Ev::PdelayResp(0, 1, true, true)]),
    ] {
        out.evals += 1;
        let mut node = NodeSpec::default();
        node.class = class;
        node.ports = vec![PortSpec { p2p: true, ..Default::default() }];
        let cfg = WorldCfg { node, ..Default::default() };
        let mut hist = seed.clone();
        hist.push(Ev::PdelayReq(0, 1));
        struct O(Vec<String>, usize);
        impl Observer for O {
            fn post(&mut self, _r: &mut Run<'_>, s: &Step) {
                if s.index == self.1 {
                    for (_, a) in &s.acts {
                        for i in a {
                            if let Some(Ok(m)) = &i.decoded {
                                self.0.push(rc::type_name(m.hdr.msg_type).to_string());
                            }
                        }
                    }
                }
            }
        }
        let mut o = O(vec![], hist.len() - 1);
        cfg.exec(&hist, &mut o, |_| ());
        if o.0 != vec!["Pdelay_Resp".to_string()] {
            out.push(&format!("pdelayreq-unanswered-in-{name}"), format!("frames {:?}", o.0), json!({"kind": "pdelay-state", "state": name}));
        }
    }
    out
}

/// requests of another PTP domain (the domainNumber differs, only the minorSdoId differs, only the
/// majorSdoId differs, both differ) draw no frame at all from a master port or a P2P port: a
/// response would bear the requester's domain, or answer a domain the instance is not part of
fn foreign_requests() -> Out {
    let mut out = Out { evals: 0, v: vec![] };
    let base = req_headers()[0].clone();
    for (dom, major, minor) in [(6u8, 1u8, 0x23u8), (5, 1, 0x22), (5, 0, 0x23), (5, 2, 0x23), (6, 0, 0x23), (0, 0, 0)] {
        for pdelay in [false, true] {
            let mut h = base.clone();
            h.domain = dom;
            h.major_sdo = major;
            h.minor_sdo = minor;
            let sp = spec(pdelay, 1);
            out.evals += 1;
            let frames = with_node::<RecFilter, _>(&sp, |_| RecCfg(Default::default(), false), |node| {
                let _ = receipt_timeout(node, 0);
                let body = if pdelay { Body::PdelayReq { origin: Ts::default(), reserved: [0; 10] } } else { Body::DelayReq { origin: Ts { secs: 77, nanos: 5 } } };
                let req = rc::encode(&Msg::new(h.clone(), body));
                let Ok(acts) = catch(|| event(node, 0, &req, time_bits(5u128 << 40))) else { return vec![] };
                frames_of(&acts).into_iter().map(|f| hex(&f.1)).collect::<Vec<_>>()
            });
            if !frames.is_empty() {
                out.push(
                    "response-to-foreign-domain-request",
                    format!("{} with domain {dom} sdoId {:#x} drew {} frame(s) from an instance in domain 5 sdoId 0x123: {:?}", if pdelay { "Pdelay_Req" } else { "Delay_Req" }, (major as u16) << 8 | minor as u16, frames.len(), frames),
                    json!({"kind": "foreign-request", "domain": dom, "major": major, "minor": minor, "pdelay": pdelay}),
                );
            }
        }
    }
    out
}

/// 65 540 consecutive emissions per message type: ids increase by one mod 2^16
fn long_histories() -> Out {
    let mut out = Out { evals: 0, v: vec![] };
    const N: usize = 65_540;
    let kinds = ["sync", "announce", "delay_req", "pdelay_req"];
    let res: Vec<(u64, Option<(String, String)>)> = kinds
        .par_iter()
        .map(|&kind| {
            let sp = spec(kind == "pdelay_req", 1);
            let mut bad = None;
            let n = with_node::<RecFilter, _>(&sp, |_| RecCfg(Default::default(), false), |node| {
                let mut last: Option<u16> = None;
                let mut first: Option<u16> = None;
                if kind == "delay_req" {
                    let mut a = Peer::gm(1, 1);
                    a.domain = 5;
                    a.sdo = 0x123;
                    let _ = announce_twice_and_bmca(node, 0, &mut a);
                } else if kind != "pdelay_req" {
                    let _ = receipt_timeout(node, 0);
                }
                for i in 0..N {
                    let mut acts = match kind {
                        "sync" => sync_timer(node, 0),
                        "announce" => announce_timer(node, 0),
                        _ => delay_timer(node, 0),
                    };
                    let fr = frames_of(&acts);
                    if fr.len() != 1 {
                        bad = Some((format!("{kind}-emission-count"), format!("{} frames at emission {i}", fr.len())));
                        break;
                    }
                    let m = rc::decode(&fr[0].1).expect("harness: emitted frame decodes");
                    if let Some(l) = last {
                        if m.hdr.seq != l.wrapping_add(1) {
                            bad = Some((format!("{kind}-sequence-step"), format!("emission {i}: id {} after {}", m.hdr.seq, l)));
                            break;
                        }
                    }
                    first.get_or_insert(m.hdr.seq);
                    last = Some(m.hdr.seq);
                    // return the context so that the port does not accumulate anything
                    if let Some((ctx, _)) = take_ctx(&mut acts) {
                        let fu = collect(node.port(0).handle_send_timestamp(ctx, time_ns(1_000 + i as u64)));
                        if kind == "sync" {
                            let f = frames_of(&fu);
                            let ok = f.len() == 1 && rc::decode(&f[0].1).map(|x| x.hdr.seq == m.hdr.seq).unwrap_or(false);
                            if !ok {
                                bad = Some(("followup-sequence".to_string(), format!("emission {i}")));
                                break;
                            }
                        }
                    }
                }
                N as u64
            });
            (n, bad)
        })
        .collect();
    for (n, bad) in res {
        out.evals += n;
        if let Some((s, m)) = bad {
            out.push(&s, m, json!({"kind": "long"}));
        }
    }
    out
}

// ---------------------------------------------------------------------------
// frame monitor on explorations
// ---------------------------------------------------------------------------

pub struct FrameMon;
#[derive(Default)]
pub struct FrameSt {
    /// last sequence id per (port, message type)
    last: std::collections::HashMap<(usize, u8), u16>,
}

impl Monitor for FrameMon {
    type St = FrameSt;
    fn post(&self, st: &mut FrameSt, run: &mut Run<'_>, s: &Step, report: Option<&mut Vec<Violation>>) {
        let mut local = vec![];
        for (p, acts) in &s.acts {
            let own = run.own_pid(*p);
            let events = acts.iter().filter(|a| a.kind == "SendEvent").count();
            if events > 1 {
                local.push(Violation { signature: "several-event-sends-in-one-action-set".into(), message: format!("{events} SendEvent actions from {:?}", s.ev), replay: json!(null) });
            }
            if acts.len() > 2 && !acts.iter().any(|a| a.kind == "Forward") {
                local.push(Violation { signature: "more-than-two-actions".into(), message: format!("{:?}", acts.iter().map(|a| a.kind).collect::<Vec<_>>()), replay: json!(null) });
            }
            for a in acts {
                let Some(bytes) = &a.frame else { continue };
                let minor = run.cfg.node.ports[*p].minor;
                for (sig, msg) in frame_rules(bytes, &own, run.cfg.node.domain, run.cfg.node.sdo, minor) {
                    // a Delay_Resp copies the requester's header (incl. its version)
                    if sig == "frame-version" && matches!(a.decoded, Some(Ok(Msg { body: Body::DelayResp { .. }, .. }))) {
                        continue;
                    }
                    local.push(Violation { signature: sig, message: format!("{msg} (emitted in {:?})", s.ev), replay: json!(null) });
                }
                if let Some(Ok(m)) = &a.decoded {
                    // ids of messages the port originates increase by one per type
                    if matches!(m.body, Body::Sync { .. } | Body::Announce(_) | Body::DelayReq { .. } | Body::PdelayReq { .. }) {
                        if let Some(l) = st.last.get(&(*p, m.hdr.msg_type)) {
                            if m.hdr.seq != l.wrapping_add(1) {
                                local.push(Violation {
                                    signature: format!("{}-sequence-step", rc::type_name(m.hdr.msg_type)),
                                    message: format!("port {} emitted {} id {} after id {}", p + 1, rc::type_name(m.hdr.msg_type), m.hdr.seq, l),
                                    replay: json!(null),
                                });
                            }
                        }
                        st.last.insert((*p, m.hdr.msg_type), m.hdr.seq);
                    }
                }
            }
        }
        if let Some(out) = report {
            out.extend(local);
        }
    }
    fn key(&self, st: &FrameSt) -> String {
        // the next expected ids are part of what future verdicts depend on; they equal the
        // generators inside the ports, which are in the canonical state already
        let _ = st;
        String::new()
    }
}

static FMON: FrameMon = FrameMon;

fn frame_systems() -> (Vec<WorldSys<'static, FrameMon>>, std::collections::HashMap<String, (usize, usize)>) {
    let mut defs = world_defs();
    // role changes around armed timers: a port that was master/slave, left the role, and can
    // take it again (stale timers firing in between must not disturb the id sequences)
    let was_master = vec![Ev::T(0, Timer::Receipt), Ev::T(0, Timer::Sync), Ev::TxTs(0), Ev::T(0, Timer::Announce)];
    let mut a = was_master.clone();
    a.extend([Ev::SlaveOnly(true), Ev::Bmca]);
    let mut b = was_master.clone();
    b.extend([Ev::Ann(0, 0), Ev::Ann(0, 0), Ev::Bmca]);
    let c = vec![Ev::Ann(0, 0), Ev::Ann(0, 0), Ev::Bmca, Ev::T(0, Timer::Delay), Ev::TxTs(0), Ev::T(0, Timer::Receipt)];
    defs.push(crate::c08::WorldDef { name: "1p-was-master-now-listening", ports: vec![(false, false)], slave_only: false, seed: a, obedient: false, rich: false, depth: (5, 6) });
    defs.push(crate::c08::WorldDef { name: "1p-was-master-now-slave", ports: vec![(false, false)], slave_only: false, seed: b, obedient: false, rich: false, depth: (5, 6) });
    defs.push(crate::c08::WorldDef { name: "1p-was-slave-now-master", ports: vec![(false, false)], slave_only: false, seed: c.clone(), obedient: false, rich: false, depth: (6, 7) });
    defs.push(crate::c08::WorldDef { name: "1p-p2p-was-slave-now-master", ports: vec![(true, false)], slave_only: false, seed: c, obedient: false, rich: false, depth: (5, 6) });
    let built = build("C10", &FMON, defs, false);
    let depths: std::collections::HashMap<String, (usize, usize)> = built.iter().map(|(s, d)| (s.name.clone(), *d)).collect();
    let mut systems: Vec<_> = built.into_iter().map(|(s, _)| s).collect();
    for s in &mut systems {
        s.cfg.node.domain = 9;
        s.cfg.node.sdo = 0xea7;
        for p in &mut s.cfg.peers {
            p.domain = 9;
            p.sdo = 0xea7;
        }
    }
    (systems, depths)
}

pub fn run(tier: Tier) -> i32 {
    let mut rep = Reporter::new("C10", tier, "model_checking");
    let mut evals = 0;
    for o in [lattice_sync(tier), lattice_requests(tier), foreign_requests(), pdelay_in_every_state(), long_histories()] {
        evals += o.evals;
        rep.violations(o.v);
    }
    rep.cover("lattice_and_long_history_evaluations", json!(evals));
    rep.cover("request_headers", json!(req_headers().len()));
    rep.cover("timestamps", json!(times(tier).len()));
    let (systems, depths) = frame_systems();
    explore_all(&mut rep, &systems, |s| tier.pick(if s.name.contains("was-") { depths[&s.name].0 } else { depths[&s.name].0.saturating_sub(1) }, depths[&s.name].1), tier.pick(8.0, 300.0));
    let sweep = sweep_systems(tier == Tier::Quick);
    explore_more(&mut rep, "sweep", &sweep, tier.pick(3, 4), tier.pick(2.0, 30.0));
    rep.assume("Pdelay_Resp/_Follow_Up carry times to the nanosecond (sub-ns part not required); Delay_Resp exactness is judged where receive-time remainder + request correction is representable, otherwise the correction must not wrap negative");
    rep.finish()
}

/// the configuration sweep under the frame monitor (domain/sdoId as the tokens say)
fn sweep_systems(reduced: bool) -> Vec<WorldSys<'static, FrameMon>> {
    build("C10", &FMON, crate::c08::sweep_defs(reduced), false).into_iter().map(|(s, _)| s).collect()
}

pub fn replay(r: &serde_json::Value) {
    if r.get("world").is_some() {
        let (mut systems, _) = frame_systems();
        systems.extend(sweep_systems(false));
        replay_world(&systems, r);
    } else {
        println!("lattice case {r}: rerun ./check C10 quick (each case is re-derived from the lattice)");
    }
}
