//! C12 — no stuck states: ports keep progressing when the host obeys timer actions.
//! E1 over `World` (obedient host).  From every explored state a deterministic,
//! timed continuation is run with timers fired exactly as armed: (a) total
//! silence, (b) a steadily announcing better master.  Plus, in every state, the
//! timer-dependency invariant.

use serde_json::json;
use simcore::refcodec::{self as rc, Body, Ts};
use simcore::report::{Reporter, Tier, Violation};
use simcore::scen::state_name;
use simcore::world::*;

use crate::c08::{build, WorldDef};

const SEC: u64 = 1_000_000_000;

/// 2^log seconds in ns
fn interval_ns(log: i8) -> u64 {
    (SEC as f64 * 2f64.powi(log as i32)) as u64
}

#[derive(Clone, Copy, PartialEq, Debug)]
pub enum Mode {
    Silence,
    BetterMaster,
    /// the better master is heard on the instance's last port (port number n) instead of port 1
    BetterMasterLast,
}
impl Mode {
    fn better(self) -> bool {
        self != Mode::Silence
    }
    fn mport(self, n: usize) -> usize {
        if self == Mode::BetterMasterLast {
            n - 1
        } else {
            0
        }
    }
}

pub struct LiveMon {
    pub mode: Mode,
}

/// (time, port, message type nibble)
type Emission = (u64, usize, u8);

/// Drive the run forward in simulated time, firing timers exactly as armed.
fn continue_timed(run: &mut Run<'_>, mode: Mode, horizon: u64) -> (Vec<Emission>, Vec<(u64, Vec<PS>)>, bool) {
    let n = run.n_ports();
    // deadlines of the timers that are armed now, from the durations they were armed with
    let mut deadline: Vec<[Option<u64>; 5]> = vec![[None; 5]; n];
    for p in 0..n {
        for t in TIMERS {
            if run.hosts[p].armed[t as usize] {
                let d = run.hosts[p].last_duration[t as usize].map(|d| d.as_nanos() as u64).unwrap_or(0);
                deadline[p][t as usize] = Some(d);
            }
        }
    }
    let mut now = 0u64;
    let mut emissions = vec![];
    let mut states = vec![(0u64, run.states())];
    let ann_iv = interval_ns(run.cfg.node.ports[0].log_announce);
    let sync_iv = interval_ns(run.cfg.node.ports[0].log_sync);
    let bmca_every = ann_iv;
    let mut next_bmca = ann_iv / 2;
    // the better master (peer 0) on port 0: Announce every interval, two-step Sync + Follow_Up
    let mut next_ann = SEC / 10;
    let mut next_sync = SEC / 5;
    let mut pending_frames: Vec<(u64, usize, Vec<u8>, bool)> = vec![];
    let mport = mode.mport(n);
    // a port that is faulty when the continuation starts keeps hearing the same master too (its
    // Announces are recorded but a faulty port takes no part in the BMCA)
    let also_on_faulty_first = mode == Mode::BetterMasterLast && n > 1 && matches!(run.states()[0], PS::Faulty);
    let mut guard = 0;
    loop {
        guard += 1;
        if guard > 20_000 {
            return (emissions, states, false); // zero-length timer loop
        }
        // earliest event
        let mut best: Option<(u64, u8, usize, usize)> = None; // (time, class, a, b)
        let mut consider = |t: u64, class: u8, a: usize, b: usize, best: &mut Option<(u64, u8, usize, usize)>| {
            if best.map(|x| (t, class, a, b) < x).unwrap_or(true) {
                *best = Some((t, class, a, b));
            }
        };
        for p in 0..n {
            for t in TIMERS {
                if let Some(d) = deadline[p][t as usize] {
                    consider(d, 2, p, t as usize, &mut best);
                }
            }
        }
        consider(next_bmca, 3, 0, 0, &mut best);
        if mode.better() {
            consider(next_ann, 0, 0, 0, &mut best);
            consider(next_sync, 0, 1, 0, &mut best);
        }
        for (i, f) in pending_frames.iter().enumerate() {
            consider(f.0, 1, i, 0, &mut best);
        }
        let (t, class, a, b) = best.unwrap();
        if t > horizon {
            break;
        }
        now = t;
        let ev = match class {
            0 => {
                if a == 0 {
                    next_ann += ann_iv;
                    Ev::Ann(mport, 0)
                } else {
                    next_sync += sync_iv;
                    // Follow_Up follows 10 ms later
                    let s = run.peers[0].sync_seq;
                    pending_frames.push((now + SEC / 100, mport, run.peers[0].follow_up(s, Ts::from_ns(run.cfg.rx_ns as u128 - 1000), 0), false));
                    Ev::Sync(mport, 0, true)
                }
            }
            1 => {
                let f = pending_frames.remove(a);
                Ev::Raw(f.1, simcore::harness::hex(&f.2), f.3)
            }
            2 => {
                deadline[a][b] = None;
                Ev::T(a, TIMERS[b])
            }
            _ => {
                next_bmca += bmca_every;
                Ev::Bmca
            }
        };
        let announce_now = matches!(ev, Ev::Ann(..)) && class == 0;
        let mut queue = vec![ev];
        if announce_now && also_on_faulty_first {
            queue.push(Ev::Ann(0, 0));
        }
        while let Some(ev) = queue.pop() {
            let step = run.apply(&ev);
            if step.panic.is_some() {
                return (emissions, states, true);
            }
            for (p, acts) in &step.acts {
                for a in acts {
                    if let Some(d) = a.duration {
                        let idx = match a.kind {
                            "ResetAnnounce" => 0,
                            "ResetSync" => 1,
                            "ResetDelay" => 2,
                            "ResetReceipt" => 3,
                            _ => 4,
                        };
                        deadline[*p][idx] = Some(now + d.as_nanos() as u64);
                    }
                    if let Some(Ok(m)) = &a.decoded {
                        emissions.push((now, *p, m.hdr.msg_type));
                        if mode.better() && *p == mport {
                            // the master serves delay requests
                            let own = run.own_pid(mport);
                            match m.body {
                                Body::DelayReq { .. } => pending_frames.push((now + SEC / 1000, mport, run.peers[0].delay_resp(m.hdr.seq, Ts::from_ns(run.cfg.tx_ns as u128 + 700), 0, &own), false)),
                                Body::PdelayReq { .. } => pending_frames.push((now + SEC / 1000, mport, run.peers[0].pdelay_resp(m.hdr.seq, false, Ts::default(), 0, &own), true)),
                                _ => {}
                            }
                        }
                    }
                    if a.kind == "SendEvent" {
                        // the host reports the transmit timestamp right after sending (main.rs)
                        queue.push(Ev::TxTs(*p));
                    }
                }
            }
            if step.after != step.before {
                states.push((now, step.after.clone()));
            }
        }
    }
    let _ = now;
    (emissions, states, false)
}

fn v(sig: String, msg: String) -> Violation {
    Violation { signature: sig, message: msg, replay: json!(null) }
}

#[derive(Default)]
pub struct LiveSt {
    /// (port, timer) dependencies that were already unmet before the step
    unmet_before: Vec<(usize, usize)>,
    /// timers armed before the step
    armed_before: Vec<[bool; 5]>,
    /// per port, while it is faulty: was the announce receipt timer armed when the fault began,
    /// and has it expired since (history class of a recovery; part of the state key)
    fault: Vec<Option<(bool, bool)>>,
    /// per port: it left a peer-delay fault for LISTENING without a receipt timer and none has
    /// been armed since; the history class of that fault (part of the state key)
    unrescued: Vec<Option<&'static str>>,
}

fn needs(state: PS) -> Vec<(Timer, &'static str)> {
    // Listening is the only state the BMCA leaves alone without a qualified master, so
    // it depends on the receipt timer; passive and slave ports are moved on by the
    // BMCA itself once their master's records have aged out
    match state {
        PS::Listening => vec![(Timer::Receipt, "announce receipt")],
        PS::Slave => vec![(Timer::Delay, "delay request")],
        PS::Master => vec![(Timer::Announce, "announce"), (Timer::Sync, "sync")],
        _ => vec![],
    }
}

impl Monitor for LiveMon {
    type St = LiveSt;

    fn pre(&self, st: &mut LiveSt, run: &mut Run<'_>, _ev: &Ev, _judged: bool) {
        st.unmet_before.clear();
        st.armed_before = (0..run.n_ports()).map(|p| run.hosts[p].armed).collect();
        st.fault.resize(run.n_ports(), None);
        let states = run.states();
        for p in 0..run.n_ports() {
            for (t, _) in needs(states[p]) {
                if !run.hosts[p].armed[t as usize] {
                    st.unmet_before.push((p, t as usize));
                }
            }
        }
    }

    fn key(&self, st: &LiveSt) -> String {
        format!("{:?}{:?}", st.fault, st.unrescued)
    }

    fn post(&self, st: &mut LiveSt, run: &mut Run<'_>, s: &Step, report: Option<&mut Vec<Violation>>) {
        // history class of the faults in progress (kept on every step, judged or not)
        st.fault.resize(run.n_ports(), None);
        let mut leaving: Vec<Option<(bool, bool)>> = vec![None; run.n_ports()];
        for p in 0..run.n_ports() {
            let (b, a) = (matches!(s.before[p], PS::Faulty), matches!(s.after[p], PS::Faulty));
            if !b && a {
                st.fault[p] = Some((st.armed_before.get(p).map(|x| x[Timer::Receipt as usize]).unwrap_or(false), false));
            }
            if b && matches!(s.ev, Ev::T(q, Timer::Receipt) if q == p) {
                if let Some(f) = &mut st.fault[p] {
                    f.1 = true;
                }
            }
            if b && !a {
                leaving[p] = st.fault[p].take();
            }
        }
        st.unrescued.resize(run.n_ports(), None);
        for p in 0..run.n_ports() {
            if run.hosts[p].armed[Timer::Receipt as usize] || !matches!(s.after[p], PS::Listening) {
                st.unrescued[p] = None;
            }
            if let (Some(f), PS::Listening, false) = (leaving[p], s.after[p], run.hosts[p].armed[Timer::Receipt as usize]) {
                st.unrescued[p] = Some(match f {
                    (false, false) => "after-recovery-of-a-port-that-had-no-receipt-timer-when-its-fault-began",
                    (_, true) => "after-recovery-of-a-port-whose-receipt-timer-expired-while-faulty",
                    (true, false) => "after-recovery-of-a-port-whose-receipt-timer-was-lost",
                });
            }
        }
        let Some(out) = report else { return };
        if s.panic.is_some() {
            return;
        }
        // every timer is requested with the duration its configuration prescribes
        for (p, acts) in &s.acts {
            let ps = &run.cfg.node.ports[*p];
            let (a, sy, d) = (interval_ns(ps.log_announce) as u128, interval_ns(ps.log_sync) as u128, interval_ns(ps.log_delay) as u128);
            let to = ps.receipt_timeout as u128;
            for act in acts {
                let Some(dur) = act.duration else { continue };
                let ns = dur.as_nanos();
                let (ok, want) = match act.kind {
                    // zero when the port has just become master, the interval when the timer re-arms itself
                    "ResetAnnounce" => (if matches!(s.ev, Ev::T(q, Timer::Announce) if q == *p) { ns == a } else { ns == 0 || ns == a }, format!("{a} ns (or 0 on entering master)")),
                    "ResetSync" => (if matches!(s.ev, Ev::T(q, Timer::Sync) if q == *p) { ns == sy } else { ns == 0 || ns == sy }, format!("{sy} ns (or 0 on entering master)")),
                    "ResetReceipt" => (ns >= to * a && ns <= 2 * to * a, format!("{}..{} ns", to * a, 2 * to * a)),
                    "ResetDelay" => (ns <= 2 * d, format!("0..{} ns", 2 * d)),
                    _ => (true, String::new()),
                };
                if !ok {
                    out.push(v(format!("timer-duration:{}", act.kind), format!("port {} asked for {} after {} ns, configuration says {want} (after {:?})", p + 1, act.kind, ns, s.ev)));
                }
            }
        }
        // no port waits on a timer that is not armed
        for p in 0..run.n_ports() {
            let armed = run.hosts[p].armed;
            let need = needs(s.after[p]);
            for (t, name) in need {
                // reported at the step that creates the situation (a timer that fires while armed
                        // and is not re-armed, or a state change that does not arm it)
                if !armed[t as usize] && !(st.unmet_before.contains(&(p, t as usize)) && s.before[p] == s.after[p]) {
                    // a recovery from a peer-delay fault is classified by the history of the fault
                    let class = match (t, leaving[p]) {
                        (Timer::Receipt, Some((false, false))) => "", // never armed: the port was master when the fault began
                        (Timer::Receipt, Some((_, true))) => ":receipt-timer-expired-while-faulty",
                        (Timer::Receipt, Some((true, false))) => ":receipt-timer-armed-at-fault-and-lost",
                        _ => "",
                    };
                    out.push(v(
                        format!("{}-port-without-{}-timer:{}-by-{}{}", state_name(s.after[p]).to_lowercase(), name.replace(' ', "-"), state_name(s.before[p]).to_lowercase(), crate::c03::ev_kind(&s.ev), class),
                        format!("port {} is {} after {:?} but its {} timer is not armed (armed: {:?})", p + 1, state_name(s.after[p]), s.ev, name, armed),
                    ));
                }
            }
        }
    }

    fn finale(&self, st: &mut LiveSt, run: &mut Run<'_>, out: &mut Vec<Violation>) {
        let unrescued = st.unrescued.clone();
        let n = run.n_ports();
        let start = run.states();
        let slave_only = run.node.inst.default_ds().slave_only;
        let timeout = run.cfg.node.ports[0].receipt_timeout as u64;
        // bound: receipt timeout (up to 2 x timeout intervals) + 5 intervals
        let ann_iv = interval_ns(run.cfg.node.ports[0].log_announce);
        let sync_iv = interval_ns(run.cfg.node.ports[0].log_sync);
        let delay_iv = interval_ns(run.cfg.node.ports[0].log_delay);
        let t1 = (2 * timeout + 5) * ann_iv;
        let horizon = t1 + 9 * ann_iv;
        let (em, states, panicked) = continue_timed(run, self.mode, horizon);
        if panicked {
            return; // C03's
        }
        let state_at = |p: usize, t: u64| -> PS {
            let mut cur = start[p];
            for (ts, st) in &states {
                if *ts <= t {
                    cur = st[p];
                }
            }
            cur
        };
        match self.mode {
            Mode::Silence => {
                for p in 0..n {
                    if slave_only || matches!(start[p], PS::Faulty) {
                        continue;
                    }
                    let at = state_at(p, t1);
                    if !matches!(at, PS::Master) {
                        // a port left stranded by a fault recovery is the consequence of that recovery
                        let cause = unrescued.get(p).copied().flatten().map(|c| format!(":{c}")).unwrap_or_default();
                        out.push(v(
                            format!("silence:{}-port-never-becomes-master{}", state_name(start[p]).to_lowercase(), cause),
                            format!("under total silence port {} (initially {}, P2P {}) is {} after {} s instead of Master; armed timers at the start: {:?}", p + 1, state_name(start[p]), run.cfg.node.ports[p].p2p, state_name(at), t1 / SEC, run.hosts[p].armed),
                        ));
                        continue;
                    }
                    for (ty, name, iv) in [(rc::ANNOUNCE, "Announce", ann_iv), (rc::SYNC, "Sync", sync_iv)] {
                        let times: Vec<u64> = em.iter().filter(|e| e.1 == p && e.2 == ty && e.0 >= t1).map(|e| e.0).collect();
                        if times.len() < 7 {
                            out.push(v(format!("silence:master-stops-sending-{name}"), format!("port {} sent {} {name} messages in the {} s after becoming master", p + 1, times.len(), (horizon - t1) / SEC)));
                            continue;
                        }
                        for w in times.windows(2) {
                            if w[1] - w[0] != iv {
                                out.push(v(format!("silence:{name}-interval"), format!("port {} sent {name} at {} and {} ns (configured interval {} ns)", p + 1, w[0], w[1], iv)));
                                break;
                            }
                        }
                    }
                }
            }
            Mode::BetterMaster | Mode::BetterMasterLast => {
                let p = self.mode.mport(n);
                let last = self.mode == Mode::BetterMasterLast;
                if matches!(start[p], PS::Faulty) {
                    return;
                }
                if run.cfg.node.ports[p].master_only {
                    // a masterOnly port never follows anybody: with a steadily announcing foreign master
                    // on its segment it is MASTER within the bound that silence has, and sends
                    if slave_only {
                        return;
                    }
                    let at = state_at(p, t1);
                    // (a clockClass 1..127 instance that hears a better clock goes passive: figure 33)
                    let class = run.node.inst.default_ds().clock_quality.clock_class;
                    if (1..=127).contains(&class) && matches!(at, PS::Passive) {
                        return;
                    }
                    if !matches!(at, PS::Master) {
                        out.push(v(
                            format!("better-master:master-only-{}-port-never-becomes-master", state_name(start[p]).to_lowercase()),
                            format!("a foreign master announces every interval; the masterOnly port {} (initially {}) is {} after {} s instead of Master", p + 1, state_name(start[p]), state_name(at), t1 / SEC),
                        ));
                        return;
                    }
                    for (ty, name) in [(rc::ANNOUNCE, "Announce"), (rc::SYNC, "Sync")] {
                        let cnt = em.iter().filter(|e| e.1 == p && e.2 == ty && e.0 >= t1).count();
                        if cnt < 7 {
                            out.push(v(format!("better-master:master-only-port-stops-sending-{name}"), format!("masterOnly port {} sent {cnt} {name} messages in the {} s after the bound", p + 1, (horizon - t1) / SEC)));
                        }
                    }
                    return;
                }
                // (on the last port: five more intervals, in which what another port had heard of the
                // same master before leaves its window)
                let t_slave = if last { 10 * ann_iv + ann_iv / 2 } else { 5 * ann_iv + ann_iv / 2 };
                let at = state_at(p, t_slave);
                // an instance with clockClass 1..127 never becomes slave: it goes passive (IEEE 1588 figure 33)
                let class = run.node.inst.default_ds().clock_quality.clock_class;
                if (1..=127).contains(&class) {
                    if !matches!(at, PS::Passive) {
                        out.push(v(
                            format!("better-master:low-class-{}-port-not-passive-after-5-intervals", state_name(start[p]).to_lowercase()),
                            format!("clockClass {class}: a better master announced every interval for 5.5 s; port 1 (initially {}) is {}", state_name(start[p]), state_name(at)),
                        ));
                    }
                    return;
                }
                if !matches!(at, PS::Slave) {
                    out.push(v(
                        format!("better-master:{}-port-not-slave-after-5-intervals", state_name(start[p]).to_lowercase()),
                        format!("a better master announced every interval for {:.1} intervals; port {} (initially {}) is {}", t_slave as f64 / ann_iv as f64, p + 1, state_name(start[p]), state_name(at)),
                    ));
                    return;
                }
                // ... and stays slave while the master keeps announcing
                if let Some((ts, st)) = states.iter().find(|(ts, st)| *ts > t_slave && !matches!(st[p], PS::Slave)) {
                    out.push(v(
                        "better-master:slave-port-leaves-slave-state".into(),
                        format!("a better master announces every interval; port {} was slave at {} ns and is {} at {} ns", p + 1, t_slave, state_name(st[p]), ts),
                    ));
                    return;
                }
                let ty = if run.cfg.node.ports[p].p2p { rc::PDELAY_REQ } else { rc::DELAY_REQ };
                let times: Vec<u64> = em.iter().filter(|e| e.1 == p && e.2 == ty && e.0 >= t_slave + ann_iv / 2).map(|e| e.0).collect();
                if times.len() < 3 {
                    out.push(v("better-master:no-delay-requests".into(), format!("port {} is slave but sent {} delay requests in {} s", p + 1, times.len(), (horizon - t_slave) / SEC)));
                } else {
                    for w in times.windows(2) {
                        if w[1] - w[0] > 2 * delay_iv {
                            out.push(v("better-master:delay-request-gap".into(), format!("delay requests at {} and {} ns (configured interval {} ns)", w[0], w[1], delay_iv)));
                            break;
                        }
                    }
                }
            }
        }
    }
}

static SILENCE: LiveMon = LiveMon { mode: Mode::Silence };
static BETTER: LiveMon = LiveMon { mode: Mode::BetterMaster };
static BETTER_LAST: LiveMon = LiveMon { mode: Mode::BetterMasterLast };

fn defs() -> Vec<WorldDef> {
    let slave_seed = vec![Ev::Ann(0, 0), Ev::Ann(0, 0), Ev::Bmca];
    vec![
        WorldDef { name: "1p-e2e", ports: vec![(false, false)], slave_only: false, seed: vec![], obedient: true, rich: true, depth: (5, 7) },
        WorldDef { name: "1p-e2e-slave-seed", ports: vec![(false, false)], slave_only: false, seed: slave_seed.clone(), obedient: true, rich: true, depth: (4, 6) },
        WorldDef { name: "1p-p2p", ports: vec![(true, false)], slave_only: false, seed: vec![], obedient: true, rich: false, depth: (5, 7) },
        WorldDef { name: "1p-p2p-master-seed", ports: vec![(true, false)], slave_only: false, seed: vec![Ev::T(0, Timer::Receipt), Ev::T(0, Timer::Announce), Ev::T(0, Timer::Sync), Ev::TxTs(0)], obedient: true, rich: false, depth: (5, 6) },
        WorldDef {
            name: "1p-p2p-faulty-after-master",
            ports: vec![(true, false)],
            slave_only: false,
            seed: vec![Ev::Ann(0, 0), Ev::Ann(0, 0), Ev::Bmca, Ev::T(0, Timer::Receipt), Ev::T(0, Timer::Delay), Ev::TxTs(0), Ev::PdelayResp(0, 0, false, true), Ev::PdelayResp(0, 1, false, true)],
            obedient: true,
            rich: false,
            depth: (4, 6),
        },
        WorldDef {
            name: "1p-p2p-faulty-after-slave",
            ports: vec![(true, false)],
            slave_only: false,
            seed: vec![Ev::Ann(0, 0), Ev::Ann(0, 0), Ev::Bmca, Ev::T(0, Timer::Delay), Ev::TxTs(0), Ev::PdelayResp(0, 0, false, true), Ev::PdelayResp(0, 1, false, true)],
            obedient: true,
            rich: false,
            depth: (4, 6),
        },
        // announce 2 s, sync 0.25 s, delay requests 0.5 s (set in systems())
        WorldDef { name: "1p-e2e-intervals", ports: vec![(false, false)], slave_only: false, seed: vec![], obedient: true, rich: true, depth: (4, 6) },
        WorldDef { name: "1p-e2e-intervals-slave-seed", ports: vec![(false, false)], slave_only: false, seed: slave_seed.clone(), obedient: true, rich: true, depth: (3, 5) },
        // announce 0.25 s, sync and delay requests 0.125 s (set in systems())
        WorldDef { name: "1p-e2e-fast-intervals", ports: vec![(false, false)], slave_only: false, seed: vec![], obedient: true, rich: true, depth: (4, 6) },
        WorldDef { name: "1p-e2e-fast-intervals-slave-seed", ports: vec![(false, false)], slave_only: false, seed: slave_seed.clone(), obedient: true, rich: true, depth: (3, 5) },
        // the master is 254 steps away: the instance's own stepsRemoved is 255
        WorldDef { name: "1p-e2e-far-master-slave-seed", ports: vec![(false, false)], slave_only: false, seed: slave_seed.clone(), obedient: true, rich: false, depth: (4, 6) },
        WorldDef { name: "2p-e2e-far-master-slave-seed", ports: vec![(false, false), (false, false)], slave_only: false, seed: slave_seed.clone(), obedient: true, rich: false, depth: (3, 4) },
        WorldDef { name: "1p-e2e-slaveonly", ports: vec![(false, false)], slave_only: true, seed: vec![], obedient: true, rich: false, depth: (4, 6) },
        WorldDef { name: "2p-e2e", ports: vec![(false, false), (false, false)], slave_only: false, seed: vec![], obedient: true, rich: false, depth: (4, 5) },
        WorldDef {
            name: "2p-p2p-first-faulty-after-slave",
            ports: vec![(true, false), (false, false)],
            slave_only: false,
            seed: vec![Ev::Ann(0, 0), Ev::Ann(0, 0), Ev::T(1, Timer::Receipt), Ev::Bmca, Ev::T(0, Timer::Delay), Ev::TxTs(0), Ev::PdelayResp(0, 0, false, true), Ev::PdelayResp(0, 1, false, true)],
            obedient: true,
            rich: false,
            depth: (2, 3),
        },
        WorldDef { name: "1p-e2e-masteronly", ports: vec![(false, true)], slave_only: false, seed: vec![], obedient: true, rich: false, depth: (4, 6) },
        WorldDef { name: "2p-bc-seed", ports: vec![(false, false), (true, false)], slave_only: false, seed: vec![Ev::Ann(0, 0), Ev::Ann(0, 0), Ev::T(1, Timer::Receipt), Ev::Bmca], obedient: true, rich: false, depth: (3, 4) },
    ]
}

pub fn systems() -> Vec<(WorldSys<'static, LiveMon>, (usize, usize))> {
    let mut all = vec![];
    for (mon, tag) in [(&SILENCE, "silence"), (&BETTER, "better-master")] {
        for (mut s, d) in build("C12", mon, defs(), false) {
            if s.name.contains("far-master") {
                s.cfg.peers[0].steps_removed = 254;
            }
            if s.name.contains("fast-intervals") {
                for p in &mut s.cfg.node.ports {
                    p.log_announce = -2;
                    p.log_sync = -3;
                    p.log_delay = -3;
                }
            } else if s.name.contains("intervals") {
                for p in &mut s.cfg.node.ports {
                    p.log_announce = 1;
                    p.log_sync = -2;
                    p.log_delay = -1;
                }
            }
            s.name = format!("{}+{}", s.name, tag);
            all.push((s, d));
        }
    }
    // the better master on the last port of a two-port instance
    for (mut s, d) in build("C12", &BETTER_LAST, defs().into_iter().filter(|d| d.name == "2p-e2e" || d.name == "2p-p2p-first-faulty-after-slave").collect(), false) {
        s.name = format!("{}+better-master-on-last-port", s.name);
        all.push((s, d));
    }
    all
}

pub fn run(tier: Tier) -> i32 {
    let mut rep = Reporter::new("C12", tier, "model_checking");
    let built = systems();
    let depths: std::collections::HashMap<String, (usize, usize)> = built.iter().map(|(s, d)| (s.name.clone(), *d)).collect();
    let systems: Vec<_> = built.into_iter().map(|(s, _)| s).collect();
    explore_all(&mut rep, &systems, |s| tier.pick(depths[&s.name].0, depths[&s.name].1), tier.pick(10.0, 300.0));
    let sweep = sweep_systems();
    explore_more(&mut rep, "sweep", &sweep, tier.pick(3, 4), tier.pick(3.0, 60.0));
    rep.assume("continuations are timed discrete-event runs: timers fire exactly at now + the duration they were armed with; a transmit timestamp is reported right after every event send (as statime-linux does); BMCA runs every announce interval; every requested timer duration is compared with the configured intervals (announce/sync exact, receipt within [1,2] x timeout x announce interval, delay within [0,2] x the delay interval)");
    rep.assume("bounds: master within 2 x announce_receipt_timeout + 5 intervals of silence; slave within 5.5 intervals of a steady better master; delay request gaps <= 2 x the configured interval");
    rep.finish()
}

/// the configuration sweep under an obedient host, continued under silence and under a better master
fn sweep_systems() -> Vec<WorldSys<'static, LiveMon>> {
    let mut all = vec![];
    for (mon, tag) in [(&SILENCE, "silence"), (&BETTER, "better-master")] {
        for (mut s, _) in build("C12", mon, crate::c08::sweep_defs(true), false) {
            s.obedient = true;
            s.name = format!("{}+{}", s.name, tag);
            all.push(s);
        }
    }
    all
}

pub fn replay(r: &serde_json::Value) {
    let mut systems: Vec<_> = systems().into_iter().map(|(s, _)| s).collect();
    systems.extend(sweep_systems());
    replay_world(&systems, r);
}
