//! Reference best-master-clock algorithm, written from IEEE 1588-2019 9.3.2-9.3.5
//! (figures 33, 34, 35; tables 30-33), with the deviations statime documents
//! passed in as parameters.  Shares no code with statime.

use crate::refcodec::Pid;

#[derive(Clone, Debug, PartialEq, Eq, Hash)]
pub struct Ds {
    pub p1: u8,
    pub class: u8,
    pub accuracy: u8,
    pub variance: u16,
    pub p2: u8,
    pub gm: [u8; 8],
    pub steps: u16,
    /// port identity of the sender (for D0: own clock identity, port 0)
    pub sender: Pid,
    /// port identity of the receiver (for D0: own clock identity, port 0)
    pub receiver: Pid,
}

#[derive(Clone, Copy, Debug, PartialEq, Eq)]
pub enum Cmp {
    ABetter,
    ABetterTopo,
    BBetter,
    BBetterTopo,
    /// figure 35: receiver == sender (own message looped back)
    Error1,
    /// figure 35: the two messages are the same message
    Error2,
}

impl Cmp {
    pub fn a_wins(self) -> bool {
        matches!(self, Cmp::ABetter | Cmp::ABetterTopo)
    }
    pub fn b_wins(self) -> bool {
        matches!(self, Cmp::BBetter | Cmp::BBetterTopo)
    }
}

/// Figure 34 + 35.  `sender_by_port`: compare full port identities of senders
/// (the standard) or clock identities only.
pub fn compare(a: &Ds, b: &Ds, sender_by_port: bool) -> Cmp {
    if a.gm != b.gm {
        // figure 34: priority1, class, accuracy, variance, priority2, identity; lower wins
        let ka = (a.p1, a.class, a.accuracy, a.variance, a.p2, a.gm);
        let kb = (b.p1, b.class, b.accuracy, b.variance, b.p2, b.gm);
        return if ka < kb { Cmp::ABetter } else { Cmp::BBetter };
    }
    // figure 35
    let (sa, sb) = (a.steps as i32, b.steps as i32);
    if sa > sb + 1 {
        return Cmp::BBetter;
    }
    if sa + 1 < sb {
        return Cmp::ABetter;
    }
    if sa > sb {
        // A is one step further: compare identity of receiver of A with identity of sender of A
        return match a.receiver.clock.cmp(&a.sender.clock) {
            std::cmp::Ordering::Less => Cmp::BBetter,
            std::cmp::Ordering::Greater => Cmp::BBetterTopo,
            std::cmp::Ordering::Equal => Cmp::Error1,
        };
    }
    if sa < sb {
        return match b.receiver.clock.cmp(&b.sender.clock) {
            std::cmp::Ordering::Less => Cmp::ABetter,
            std::cmp::Ordering::Greater => Cmp::ABetterTopo,
            std::cmp::Ordering::Equal => Cmp::Error1,
        };
    }
    // equal steps: identities of senders, then port numbers of receivers
    let s = if sender_by_port {
        (a.sender.clock, a.sender.port).cmp(&(b.sender.clock, b.sender.port))
    } else {
        a.sender.clock.cmp(&b.sender.clock)
    };
    match s {
        std::cmp::Ordering::Less => Cmp::ABetterTopo,
        std::cmp::Ordering::Greater => Cmp::BBetterTopo,
        std::cmp::Ordering::Equal => match a.receiver.port.cmp(&b.receiver.port) {
            std::cmp::Ordering::Less => Cmp::ABetterTopo,
            std::cmp::Ordering::Greater => Cmp::BBetterTopo,
            std::cmp::Ordering::Equal => Cmp::Error2,
        },
    }
}

#[derive(Clone, Copy, Debug, PartialEq, Eq, Hash)]
pub enum Decision {
    M1,
    M2,
    M3,
    P1,
    P2,
    S1,
}

#[derive(Clone, Debug)]
pub struct Own {
    pub id: [u8; 8],
    pub p1: u8,
    pub class: u8,
    pub accuracy: u8,
    pub variance: u16,
    pub p2: u8,
}

impl Own {
    pub fn d0(&self) -> Ds {
        let me = Pid { clock: self.id, port: 0 };
        Ds {
            p1: self.p1,
            class: self.class,
            accuracy: self.accuracy,
            variance: self.variance,
            p2: self.p2,
            gm: self.id,
            steps: 0,
            sender: me.clone(),
            receiver: me,
        }
    }
}

/// best of a set by the data set comparison; None if empty.  Returns the indices
/// of all maxima (more than one = the comparison cannot separate them).
pub fn best_indices(c: &[Ds], sender_by_port: bool) -> Vec<usize> {
    let mut best: Vec<usize> = vec![];
    for i in 0..c.len() {
        // i is a maximum if nobody beats it
        if !(0..c.len()).any(|j| j != i && compare(&c[j], &c[i], sender_by_port).a_wins()) {
            best.push(i);
        }
    }
    best
}

/// Figure 33 for one port.  `ebest`/`erbest` as data sets; `ebest_is_erbest`:
/// Ebest was received on this port.
pub fn decide(own: &Own, ebest: Option<&Ds>, erbest: Option<&Ds>, ebest_is_erbest: bool, sender_by_port: bool) -> Decision {
    let d0 = own.d0();
    if (1..=127).contains(&own.class) {
        return match erbest {
            None => Decision::M1,
            Some(e) => {
                if compare(&d0, e, sender_by_port).b_wins() {
                    Decision::P1
                } else {
                    Decision::M1
                }
            }
        };
    }
    match ebest {
        None => Decision::M2,
        Some(eb) => {
            if !compare(&d0, eb, sender_by_port).b_wins() {
                return Decision::M2;
            }
            if ebest_is_erbest {
                return Decision::S1;
            }
            match erbest {
                None => Decision::M3,
                Some(er) => {
                    if compare(eb, er, sender_by_port) == Cmp::ABetterTopo {
                        Decision::P2
                    } else {
                        Decision::M3
                    }
                }
            }
        }
    }
}

#[derive(Clone, Copy, Debug, PartialEq, Eq, Hash)]
pub enum St {
    Listening,
    Master,
    Passive,
    Slave,
    Faulty,
}

/// statime's documented application of a decision to a port (9.2.5 with the
/// deviations: no PRE_MASTER/UNCALIBRATED, slave-only -> listening, faulty stays).
pub fn apply(prior: St, d: Option<Decision>, slave_only: bool, multiport_disabled: bool) -> St {
    let Some(d) = d else { return prior };
    if prior == St::Faulty {
        return St::Faulty;
    }
    match d {
        Decision::S1 => St::Slave,
        Decision::M1 | Decision::M2 | Decision::M3 => {
            if slave_only {
                St::Listening
            } else if multiport_disabled {
                St::Passive
            } else {
                St::Master
            }
        }
        Decision::P1 | Decision::P2 => St::Passive,
    }
}
