//! `Net`: a discrete-event simulation of several real `PtpInstance`s whose real
//! ports exchange the frames they emit over segments (point-to-point links or
//! shared media), with host timers, per-instance BMCA phases, link/node faults
//! and run-time quality changes.  Every environment decision is a numbered
//! choice point with a canonical default, so that E2 can enumerate all
//! executions with at most k departures from the default.

use std::cmp::Reverse;
use std::collections::{BinaryHeap, HashMap};

use statime::config::ClockQuality;
use statime::observability::port::PortState as PS;
use statime::port::NoForwardedTLVs;
use statime::PtpInstance;

use crate::harness::*;
use crate::refcodec::Pid;

#[derive(Clone, Debug)]
pub struct NetSpec {
    pub nodes: Vec<NodeSpec>,
    /// each segment lists the (node, port) attached to it
    pub segments: Vec<Vec<(usize, usize)>>,
    /// BMCA phase of each instance within its interval
    pub bmca_phase_ns: Vec<u64>,
    pub horizon_ns: u64,
    pub delay_min_ns: u64,
    pub delay_max_ns: u64,
    /// per node: oscillator (initial offset ns, error ppm); None = perfect clock
    pub oscillators: Vec<Option<(i64, f64)>>,
    /// per node: run the real Kalman filter behind the ports
    pub kalman: Vec<bool>,
    /// per-frame jitter instead of the per-(node, second) delay choice
    pub per_frame: Option<Jitter>,
    /// how long after an event message leaves the host reports its transmit timestamp
    /// (0: right away, before anything else happens)
    pub tx_ts_latency_ns: u64,
    /// nodes whose master ports are turned into one-step masters by the link: the Sync leaves
    /// with its transmit time as originTimestamp and twoStepFlag cleared, the Follow_Up is dropped
    pub one_step: Vec<bool>,
    /// asymmetric path: frames sent by node 0 take this much longer, frames sent by any other
    /// node this much less (ns; the mean of the two directions is unchanged)
    pub path_asymmetry_ns: i64,
    /// nodes (with an oscillator) whose clock is statime's OverlayClock over the raw oscillator
    pub overlay: Vec<bool>,
}

/// per-frame delay = delay_min + pattern(k) * (delay_max - delay_min); every frame is a choice
/// point: 0 = the pattern's value, 1 = the opposite extreme, 2 = the frame is lost
#[derive(Clone, Debug)]
pub struct Jitter {
    /// 0 = all-min, 1 = alternating min/max, 2 = low-discrepancy sequence
    pub pattern: u8,
    pub seed: u64,
    /// only frames sent in [from, to) are choice points (others take the pattern's value)
    pub choice_window_ns: (u64, u64),
}

#[derive(Clone, Debug, PartialEq)]
pub enum Fault {
    /// detach one attachment from its segment (a cut cable)
    Detach(usize, (usize, usize)),
    Attach(usize, (usize, usize)),
    /// a node's frames are dropped / delivered again
    Silence(usize),
    Unsilence(usize),
    /// set_clock_quality on a node: (class, accuracy, variance)
    Quality(usize, (u8, u8, u16)),
}

/// deviations from the default environment answers: choice index -> alternative
#[derive(Default, Clone, Debug)]
pub struct Choices {
    pub deviations: HashMap<usize, usize>,
    /// alternatives available at each choice point met in this execution
    pub seen: Vec<usize>,
}

impl Choices {
    pub fn with(dev: &[(usize, usize)]) -> Choices {
        Choices { deviations: dev.iter().cloned().collect(), seen: vec![] }
    }
    /// `n_alts` alternatives in total (0 = default)
    pub fn choose(&mut self, n_alts: usize) -> usize {
        let i = self.seen.len();
        self.seen.push(n_alts);
        match self.deviations.get(&i) {
            Some(&a) => {
                if a >= n_alts {
                    panic!("harness: replay divergence at choice point {i}: alternative {a} of {n_alts}");
                }
                a
            }
            None => 0,
        }
    }
}

#[derive(Clone, Debug, PartialEq)]
pub struct NodeView {
    pub states: Vec<PS>,
    pub parent: Pid,
    pub gm: [u8; 8],
    pub steps: u16,
}

#[derive(Clone, Debug)]
pub struct Snapshot {
    pub t: u64,
    pub nodes: Vec<NodeView>,
    /// local reading minus true time per node, in 2^-32 ns
    pub offsets: Vec<i128>,
}

#[derive(Clone, Debug, Default)]
pub struct SimResult {
    pub snapshots: Vec<Snapshot>,
    /// (time, node, port, message type) of every frame put on a segment
    pub sent: Vec<(u64, usize, usize, u8)>,
    /// every clock command: (time, node, port tag, command, accepted)
    pub clock_cmds: Vec<(u64, usize, u16, ClockCmd, bool)>,
    /// every port state change: (time, node, port, from, to)
    pub transitions: Vec<(u64, usize, usize, PS, PS)>,
    /// (time, node, port, message type) of every frame delivered to a port
    pub delivered: Vec<(u64, usize, usize, u8)>,
    pub panicked: Option<String>,
    pub choice_points: Vec<usize>,
    pub events: u64,
}

impl SimResult {
    /// everything observable about an execution, as one string (determinism self-checks)
    pub fn fingerprint(&self) -> String {
        let offs: Vec<&Vec<i128>> = self.snapshots.iter().map(|s| &s.offsets).collect();
        format!("{:?}|{:?}|{:?}|{:?}|{:?}|{:?}|{}", self.sent, self.delivered, self.transitions, self.clock_cmds, offs, self.choice_points, self.events)
    }
}

/// runs one execution twice and exits with a machinery error when the two differ
pub fn assert_deterministic(spec: &NetSpec, faults: &[(u64, Fault)], dev: &[(usize, usize)], snap: u64) {
    let a = simulate(spec, faults, &mut Choices::with(dev), snap).fingerprint();
    let b = simulate(spec, faults, &mut Choices::with(dev), snap).fingerprint();
    if a != b {
        eprintln!("machinery error: the network simulation is not deterministic (two runs of one choice vector differ)");
        std::process::exit(2);
    }
}

struct Queue {
    heap: BinaryHeap<Reverse<(u64, u64, EvKind)>>,
    seq: u64,
}
impl Queue {
    fn push(&mut self, t: u64, k: EvKind) {
        self.seq += 1;
        self.heap.push(Reverse((t, self.seq, k)));
    }
}

#[derive(Clone, Debug, PartialEq, Eq, PartialOrd, Ord)]
enum EvKind {
    Deliver { node: usize, port: usize, bytes: Vec<u8>, event: bool },
    Timer { node: usize, port: usize, timer: usize, gen: u64 },
    TxTs { node: usize, port: usize, id: u64 },
    Bmca { node: usize },
    Fault(usize),
    Snapshot,
}

pub const SEC: u64 = 1_000_000_000;

pub fn simulate(spec: &NetSpec, faults: &[(u64, Fault)], choices: &mut Choices, snapshot_every_ns: u64) -> SimResult {
    let insts: Vec<PtpInstance<RecFilter, TrackLock>> = spec.nodes.iter().map(|n| PtpInstance::new(n.instance_config(), n.time_properties())).collect();
    // one rng fraction per port: a single choice point each (default mid, alternatives low/high)
    let mut specs = spec.nodes.clone();
    for n in specs.iter_mut() {
        for p in n.ports.iter_mut() {
            if p.rng_cycle.is_empty() {
                // (a port with the minimum announceReceiptTimeout of 2 takes the low value by
                // default: the tightest timers of its configuration)
                p.rng = if p.receipt_timeout == 2 { [0.05, 0.5, 0.95][choices.choose(3)] } else { [0.5, 0.05, 0.95][choices.choose(3)] };
            }
        }
    }
    let mut nodes: Vec<Node<'_, RecFilter>> = insts
        .iter()
        .zip(specs.iter())
        .enumerate()
        .map(|(ni, (i, s))| {
            let kal = if spec.kalman.get(ni).copied().unwrap_or(false) { Some(statime::filters::KalmanConfiguration::default()) } else { None };
            Node::new(i, s, |_| RecCfg { log: Default::default(), in_key: false, kalman: kal })
        })
        .collect();
    for (ni, n) in nodes.iter().enumerate() {
        if let Some(Some((off, ppm))) = spec.oscillators.get(ni) {
            n.clock.borrow_mut().osc = Some(Osc::new(*off, *ppm));
            if spec.overlay.get(ni).copied().unwrap_or(false) {
                let cell = std::rc::Rc::new(std::cell::Cell::new(time_bits(((*off).max(0) as u128) << 32)));
                n.clock.borrow_mut().overlay = Some((statime::OverlayClock::new(RawUnder(cell.clone())), cell));
            }
        }
        SimClock::advance_to(&n.clock, 0);
    }
    let mut frame_counter = 0u64;
    let mut clock_seen = vec![0usize; nodes.len()];
    let mut res = SimResult::default();
    let mut heap = Queue { heap: BinaryHeap::new(), seq: 0 };
    fn push(q: &mut Queue, t: u64, k: EvKind) {
        q.push(t, k);
    }
    let mut gens: Vec<Vec<[u64; 5]>> = nodes.iter().map(|n| vec![[0u64; 5]; n.ports.len()]).collect();
    let mut segments = spec.segments.clone();
    let mut silenced = vec![false; nodes.len()];
    // per (node, interval) delay choice, made lazily
    let mut delay_choice: HashMap<(usize, u64), u64> = HashMap::new();
    // initial actions
    let mut pending: Vec<(usize, usize, Vec<Act>)> = vec![];
    for (ni, n) in nodes.iter_mut().enumerate() {
        let init = std::mem::take(&mut n.initial_actions);
        for (pi, a) in init.into_iter().enumerate() {
            pending.push((ni, pi, a));
        }
    }
    for (ni, _) in nodes.iter().enumerate() {
        push(&mut heap, spec.bmca_phase_ns[ni], EvKind::Bmca { node: ni });
    }
    for (i, (t, _)) in faults.iter().enumerate() {
        push(&mut heap, *t, EvKind::Fault(i));
    }
    push(&mut heap, snapshot_every_ns, EvKind::Snapshot);
    let mut now = 0u64;
    let mut tx_id = 0u64;
    let mut tx_wait: std::collections::HashMap<u64, (statime::port::TimestampContext, statime::time::Time)> = Default::default();
    loop {
        // host-side handling of returned actions
        while let Some((ni, pi, acts)) = pending.pop() {
            let mut follow: Vec<(usize, usize, Vec<Act>)> = vec![];
            for mut a in acts {
                let idx = match a.kind() {
                    "ResetAnnounce" => 0,
                    "ResetSync" => 1,
                    "ResetDelay" => 2,
                    "ResetReceipt" => 3,
                    _ => 4,
                };
                match &mut a {
                    Act::ResetAnnounce(d) | Act::ResetSync(d) | Act::ResetDelay(d) | Act::ResetReceipt(d) | Act::ResetFilter(d) => {
                        gens[ni][pi][idx] += 1;
                        push(&mut heap, now + d.as_nanos() as u64, EvKind::Timer { node: ni, port: pi, timer: idx, gen: gens[ni][pi][idx] });
                    }
                    Act::SendEvent { ctx, data, .. } => {
                        let mut rewritten;
                        let mut data: &[u8] = data;
                        if spec.one_step.get(ni).copied().unwrap_or(false) && data.len() >= 44 && data[0] & 0x0f == 0 && data[6] & 0x02 != 0 {
                            rewritten = data.to_vec();
                            rewritten[6] &= !0x02;
                            let bits = time_to_bits(nodes[ni].clock.borrow().now);
                            let ns = (bits >> 32) as u64;
                            let (secs, nanos) = (ns / 1_000_000_000, (ns % 1_000_000_000) as u32);
                            rewritten[34..40].copy_from_slice(&secs.to_be_bytes()[2..8]);
                            rewritten[40..44].copy_from_slice(&nanos.to_be_bytes());
                            let sub = ((bits & 0xffff_ffff) >> 16) as i64; // 2^-16 ns
                            let corr = i64::from_be_bytes(rewritten[8..16].try_into().unwrap()).saturating_add(sub);
                            rewritten[8..16].copy_from_slice(&corr.to_be_bytes());
                            data = &rewritten;
                        }
                        transmit(spec, &segments, &silenced, &mut delay_choice, choices, &mut heap, &mut res, now, ni, pi, data, true, &mut frame_counter);
                        if let (Some(c), true) = (ctx.take_if(|_| spec.tx_ts_latency_ns > 0), spec.tx_ts_latency_ns > 0) {
                            // the timestamp is taken now and reported to the port later
                            let ts = nodes[ni].clock.borrow().now;
                            tx_id += 1;
                            tx_wait.insert(tx_id, (c, ts));
                            push(&mut heap, now + spec.tx_ts_latency_ns, EvKind::TxTs { node: ni, port: pi, id: tx_id });
                        }
                        if let Some(c) = ctx.take() {
                            // the host reports the transmit timestamp right away (statime-linux does)
                            let ts = nodes[ni].clock.borrow().now;
                            let r = crate::report::catch(|| collect(nodes[ni].port(pi).handle_send_timestamp(c, ts)));
                            match r {
                                Ok(a2) => follow.push((ni, pi, a2)),
                                Err(p) => {
                                    res.panicked = Some(p.message);
                                    return res;
                                }
                            }
                        }
                    }
                    Act::SendGeneral { data, .. } => {
                        if spec.one_step.get(ni).copied().unwrap_or(false) && data.first().map(|b| b & 0x0f) == Some(8) {
                            continue; // the Follow_Up of an emulated one-step master never leaves
                        }
                        transmit(spec, &segments, &silenced, &mut delay_choice, choices, &mut heap, &mut res, now, ni, pi, data, false, &mut frame_counter);
                    }
                    Act::Forward(_) => {}
                }
            }
            pending.extend(follow);
        }
        let Some(Reverse((t, _, ev))) = heap.heap.pop() else { break };
        if t > spec.horizon_ns {
            break;
        }
        now = t;
        res.events += 1;
        for n in nodes.iter() {
            SimClock::advance_to(&n.clock, now);
        }
        // periodic events re-arm themselves
        match &ev {
            EvKind::Bmca { node } => {
                let iv = nodes[*node].inst.bmca_interval().as_nanos() as u64;
                push(&mut heap, now + iv, EvKind::Bmca { node: *node });
            }
            EvKind::Snapshot => {
                res.snapshots.push(Snapshot {
                    t: now,
                    nodes: nodes.iter().map(view).collect(),
                    offsets: nodes.iter().map(|n| time_to_bits(n.clock.borrow().now) as i128 - ((now as i128) << 32)).collect(),
                });
                push(&mut heap, now + snapshot_every_ns, EvKind::Snapshot);
                continue;
            }
            _ => {}
        }
        if let EvKind::Deliver { node, port, bytes, .. } = &ev {
            res.delivered.push((now, *node, *port, bytes.first().map(|b| b & 0x0f).unwrap_or(0xff)));
        }
        let touched: Option<usize> = match &ev {
            EvKind::Deliver { node, .. } | EvKind::Timer { node, .. } | EvKind::TxTs { node, .. } | EvKind::Bmca { node } => Some(*node),
            _ => None,
        };
        let before: Option<Vec<PS>> = touched.map(|n| (0..nodes[n].ports.len()).map(|p| nodes[n].port_ref(p).port_ds().port_state).collect());
        let r = crate::report::catch(|| match ev {
            EvKind::Deliver { node, port, bytes, event } => {
                let a = if event {
                    {
                        let ts = nodes[node].clock.borrow().now;
                        collect(nodes[node].port(port).handle_event_receive(&bytes, ts))
                    }
                } else {
                    collect(nodes[node].port(port).handle_general_receive(&bytes))
                };
                vec![(node, port, a)]
            }
            EvKind::Timer { node, port, timer, gen } => {
                if gens[node][port][timer] != gen {
                    return vec![]; // re-armed since
                }
                let p = nodes[node].port(port);
                let a = match timer {
                    0 => collect(p.handle_announce_timer(&mut NoForwardedTLVs)),
                    1 => collect(p.handle_sync_timer()),
                    2 => collect(p.handle_delay_request_timer()),
                    3 => collect(p.handle_announce_receipt_timer()),
                    _ => collect(p.handle_filter_update_timer()),
                };
                vec![(node, port, a)]
            }
            EvKind::TxTs { node, port, id } => {
                let (c, ts) = tx_wait.remove(&id).expect("pending transmit timestamp");
                vec![(node, port, collect(nodes[node].port(port).handle_send_timestamp(c, ts)))]
            }
            EvKind::Bmca { node } => {
                let all = nodes[node].bmca();
                all.into_iter().enumerate().map(|(p, a)| (node, p, a)).collect()
            }
            EvKind::Fault(i) => {
                match &faults[i].1 {
                    Fault::Detach(s, at) => segments[*s].retain(|x| x != at),
                    Fault::Attach(s, at) => {
                        if !segments[*s].contains(at) {
                            segments[*s].push(*at);
                        }
                    }
                    Fault::Silence(n) => silenced[*n] = true,
                    Fault::Unsilence(n) => silenced[*n] = false,
                    Fault::Quality(n, (c, a, v)) => nodes[*n].inst.set_clock_quality(ClockQuality { clock_class: *c, clock_accuracy: accuracy_from_octet(*a), offset_scaled_log_variance: *v }),
                }
                vec![]
            }
            EvKind::Snapshot => vec![],
        });
        for (ni, n) in nodes.iter().enumerate() {
            let k = n.clock.borrow();
            while clock_seen[ni] < k.log.len() {
                let (tag, c, ok) = k.log[clock_seen[ni]].clone();
                res.clock_cmds.push((now, ni, tag, c, ok));
                clock_seen[ni] += 1;
            }
        }
        if let (Some(n), Some(b), true) = (touched, &before, r.is_ok()) {
            for p in 0..b.len() {
                let a = nodes[n].port_ref(p).port_ds().port_state;
                if a != b[p] {
                    res.transitions.push((now, n, p, b[p], a));
                }
            }
        }
        match r {
            Ok(a) => {
                // keep the per-port order of the returned action sets
                for x in a.into_iter().rev() {
                    pending.push(x);
                }
            }
            Err(p) => {
                res.panicked = Some(p.message);
                return res;
            }
        }
    }
    res.choice_points = choices.seen.clone();
    res
}

pub fn view(n: &Node<'_, RecFilter>) -> NodeView {
    let pd = n.inst.parent_ds();
    NodeView {
        states: (0..n.ports.len()).map(|p| n.port_ref(p).port_ds().port_state).collect(),
        parent: Pid { clock: pd.parent_port_identity.clock_identity.0, port: pd.parent_port_identity.port_number },
        gm: pd.grandmaster_identity.0,
        steps: n.inst.current_ds(None).steps_removed,
    }
}

#[allow(clippy::too_many_arguments)]
fn transmit(
    spec: &NetSpec,
    segments: &[Vec<(usize, usize)>],
    silenced: &[bool],
    delay_choice: &mut HashMap<(usize, u64), u64>,
    choices: &mut Choices,
    heap: &mut Queue,
    res: &mut SimResult,
    now: u64,
    node: usize,
    port: usize,
    data: &[u8],
    event: bool,
    frame_counter: &mut u64,
) {
    res.sent.push((now, node, port, data.first().map(|b| b & 0x0f).unwrap_or(0xff)));
    if silenced[node] {
        return;
    }
    let d = match &spec.per_frame {
        None => {
            // all frames a node sends within one second share one delay choice
            let interval = now / SEC;
            *delay_choice.entry((node, interval)).or_insert_with(|| if choices.choose(2) == 0 { spec.delay_min_ns } else { spec.delay_max_ns })
        }
        Some(j) => {
            let k = *frame_counter;
            *frame_counter += 1;
            let span = spec.delay_max_ns - spec.delay_min_ns;
            let frac: f64 = match j.pattern {
                0 => 0.0,
                1 => (k % 2) as f64,
                _ => {
                    // Weyl sequence keyed by the seed: low discrepancy, deterministic
                    let x = (k.wrapping_add(j.seed)).wrapping_mul(0x9E37_79B9_7F4A_7C15);
                    (x >> 11) as f64 / (1u64 << 53) as f64
                }
            };
            let in_window = now >= j.choice_window_ns.0 && now < j.choice_window_ns.1;
            let alt = if in_window { choices.choose(3) } else { 0 };
            match alt {
                0 => spec.delay_min_ns + (frac * span as f64) as u64,
                1 => {
                    if frac < 0.5 {
                        spec.delay_max_ns
                    } else {
                        spec.delay_min_ns
                    }
                }
                _ => return, // lost
            }
        }
    };
    let d = if node == 0 { (d as i64 + spec.path_asymmetry_ns).max(0) as u64 } else { (d as i64 - spec.path_asymmetry_ns).max(0) as u64 };
    for seg in segments.iter().filter(|s| s.contains(&(node, port))) {
        for &(n2, p2) in seg.iter() {
            if (n2, p2) != (node, port) {
                heap.push(now + d, EvKind::Deliver { node: n2, port: p2, bytes: data.to_vec(), event });
            }
        }
    }
}
