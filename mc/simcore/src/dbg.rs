//! Parser for the output of `#[derive(Debug)]` (`{:?}`, non-pretty).
//!
//! The library derives `Debug` on `Port`, `PtpInstanceState`, `Message`, ... and
//! prints every private field.  Parsing that text gives the harness a complete
//! structural view of the live state without any source hook, and a view that
//! automatically contains every field a future change adds.

use std::fmt::Write;

#[derive(Clone, Debug, PartialEq, Eq, Hash)]
pub enum Dbg {
    /// `Name { a: x, b: y }`
    Struct(String, Vec<(String, Dbg)>),
    /// `Name(x, y)` or `(x, y)`
    Tuple(String, Vec<Dbg>),
    /// `[x, y]`
    List(Vec<Dbg>),
    /// anything else: numbers, identifiers, strings
    Atom(String),
}

pub fn parse(s: &str) -> Result<Dbg, String> {
    let b = s.as_bytes();
    let mut p = P { b, i: 0 };
    let v = p.value()?;
    p.ws();
    if p.i != b.len() {
        return Err(format!("trailing input at {}: {:?}", p.i, &s[p.i..s.len().min(p.i + 40)]));
    }
    Ok(v)
}

struct P<'a> {
    b: &'a [u8],
    i: usize,
}

impl<'a> P<'a> {
    fn ws(&mut self) {
        while self.i < self.b.len() && (self.b[self.i] == b' ' || self.b[self.i] == b'\n') {
            self.i += 1;
        }
    }
    fn peek(&self) -> Option<u8> {
        self.b.get(self.i).copied()
    }
    fn value(&mut self) -> Result<Dbg, String> {
        self.ws();
        match self.peek() {
            None => Err("unexpected end".into()),
            Some(b'[') => {
                self.i += 1;
                let mut items = vec![];
                loop {
                    self.ws();
                    if self.peek() == Some(b']') {
                        self.i += 1;
                        break;
                    }
                    items.push(self.value()?);
                    self.ws();
                    match self.peek() {
                        Some(b',') => self.i += 1,
                        Some(b']') => {}
                        o => return Err(format!("list: unexpected {:?} at {}", o.map(|c| c as char), self.i)),
                    }
                }
                Ok(Dbg::List(items))
            }
            Some(b'"') => {
                let start = self.i;
                self.i += 1;
                while let Some(c) = self.peek() {
                    if c == b'\\' {
                        self.i += 2;
                        continue;
                    }
                    self.i += 1;
                    if c == b'"' {
                        break;
                    }
                }
                Ok(Dbg::Atom(String::from_utf8_lossy(&self.b[start..self.i]).into_owned()))
            }
            Some(_) => {
                let start = self.i;
                while let Some(c) = self.peek() {
                    if matches!(c, b'{' | b'(' | b'[' | b',' | b'}' | b')' | b']') {
                        break;
                    }
                    // "a: b" inside a struct: the caller splits names, here ':' only
                    // appears in atoms like `::` which derive(Debug) never prints
                    self.i += 1;
                }
                let name = String::from_utf8_lossy(&self.b[start..self.i]).trim().to_string();
                match self.peek() {
                    Some(b'{') => {
                        self.i += 1;
                        let mut fields = vec![];
                        loop {
                            self.ws();
                            if self.peek() == Some(b'}') {
                                self.i += 1;
                                break;
                            }
                            // field name up to ':'
                            let fs = self.i;
                            while let Some(c) = self.peek() {
                                if c == b':' {
                                    break;
                                }
                                if matches!(c, b'{' | b'}' | b',') {
                                    return Err(format!("struct {name}: no field name at {}", fs));
                                }
                                self.i += 1;
                            }
                            let fname = String::from_utf8_lossy(&self.b[fs..self.i]).trim().to_string();
                            self.i += 1; // ':'
                            // `..` of non-exhaustive debug_struct is not used by derive
                            let v = self.value()?;
                            fields.push((fname, v));
                            self.ws();
                            match self.peek() {
                                Some(b',') => self.i += 1,
                                Some(b'}') => {}
                                o => {
                                    return Err(format!(
                                        "struct {name}: unexpected {:?} at {}",
                                        o.map(|c| c as char),
                                        self.i
                                    ))
                                }
                            }
                        }
                        Ok(Dbg::Struct(name, fields))
                    }
                    Some(b'(') => {
                        self.i += 1;
                        let mut items = vec![];
                        loop {
                            self.ws();
                            if self.peek() == Some(b')') {
                                self.i += 1;
                                break;
                            }
                            items.push(self.value()?);
                            self.ws();
                            match self.peek() {
                                Some(b',') => self.i += 1,
                                Some(b')') => {}
                                o => {
                                    return Err(format!(
                                        "tuple {name}: unexpected {:?} at {}",
                                        o.map(|c| c as char),
                                        self.i
                                    ))
                                }
                            }
                        }
                        Ok(Dbg::Tuple(name, items))
                    }
                    _ => {
                        if name.is_empty() {
                            Err(format!("empty atom at {}", self.i))
                        } else {
                            Ok(Dbg::Atom(name))
                        }
                    }
                }
            }
        }
    }
}

impl Dbg {
    /// Field of a struct by name, element of a tuple/list by decimal index.
    pub fn child(&self, key: &str) -> Option<&Dbg> {
        match self {
            Dbg::Struct(_, f) => f.iter().find(|(n, _)| n == key).map(|(_, v)| v),
            Dbg::Tuple(_, v) | Dbg::List(v) => key.parse::<usize>().ok().and_then(|i| v.get(i)),
            Dbg::Atom(_) => None,
        }
    }
    /// Dotted path, e.g. `"header.source_port_identity.port_number"`.
    pub fn at(&self, path: &str) -> Option<&Dbg> {
        let mut cur = self;
        for k in path.split('.') {
            cur = cur.child(k)?;
        }
        Some(cur)
    }
    pub fn get(&self, path: &str) -> &Dbg {
        self.at(path).unwrap_or_else(|| panic!("harness: no path {path} in {}", self.render()))
    }
    pub fn name(&self) -> &str {
        match self {
            Dbg::Struct(n, _) | Dbg::Tuple(n, _) => n,
            Dbg::Atom(a) => a,
            Dbg::List(_) => "[]",
        }
    }
    pub fn atom(&self) -> &str {
        match self {
            Dbg::Atom(a) => a,
            other => panic!("harness: expected atom, found {}", other.render()),
        }
    }
    pub fn num<T: std::str::FromStr>(&self) -> T
    where
        T::Err: std::fmt::Debug,
    {
        self.atom().parse::<T>().unwrap_or_else(|e| panic!("harness: bad number {:?}: {e:?}", self.atom()))
    }
    pub fn boolean(&self) -> bool {
        match self.atom() {
            "true" => true,
            "false" => false,
            o => panic!("harness: bad bool {o}"),
        }
    }
    pub fn list(&self) -> &[Dbg] {
        match self {
            Dbg::List(v) | Dbg::Tuple(_, v) => v,
            other => panic!("harness: expected list, found {}", other.render()),
        }
    }
    /// `Some(x)` -> Some(x), `None` -> None
    pub fn option(&self) -> Option<&Dbg> {
        match self {
            Dbg::Atom(a) if a == "None" => None,
            Dbg::Tuple(n, v) if n == "Some" && v.len() == 1 => Some(&v[0]),
            other => panic!("harness: expected Option, found {}", other.render()),
        }
    }
    /// list of u8 atoms -> bytes
    pub fn bytes(&self) -> Vec<u8> {
        self.list().iter().map(|d| d.num::<u8>()).collect()
    }
    pub fn render(&self) -> String {
        let mut s = String::new();
        self.render_into(&mut s);
        s
    }
    fn render_into(&self, s: &mut String) {
        match self {
            Dbg::Atom(a) => s.push_str(a),
            Dbg::List(v) => {
                s.push('[');
                for (i, x) in v.iter().enumerate() {
                    if i > 0 {
                        s.push_str(", ");
                    }
                    x.render_into(s);
                }
                s.push(']');
            }
            Dbg::Tuple(n, v) => {
                s.push_str(n);
                s.push('(');
                for (i, x) in v.iter().enumerate() {
                    if i > 0 {
                        s.push_str(", ");
                    }
                    x.render_into(s);
                }
                s.push(')');
            }
            Dbg::Struct(n, f) => {
                let _ = write!(s, "{n} {{ ");
                for (i, (k, x)) in f.iter().enumerate() {
                    if i > 0 {
                        s.push_str(", ");
                    }
                    let _ = write!(s, "{k}: ");
                    x.render_into(s);
                }
                s.push_str(" }");
            }
        }
    }
    /// Remove (recursively) every struct field called `field`.
    pub fn without_field(&self, field: &str) -> Dbg {
        match self {
            Dbg::Atom(_) => self.clone(),
            Dbg::List(v) => Dbg::List(v.iter().map(|x| x.without_field(field)).collect()),
            Dbg::Tuple(n, v) => Dbg::Tuple(n.clone(), v.iter().map(|x| x.without_field(field)).collect()),
            Dbg::Struct(n, f) => Dbg::Struct(
                n.clone(),
                f.iter().filter(|(k, _)| k != field).map(|(k, x)| (k.clone(), x.without_field(field))).collect(),
            ),
        }
    }
    /// Depth-first visit of all nodes with their dotted path.
    pub fn walk<'a>(&'a self, prefix: &str, f: &mut dyn FnMut(&str, &'a Dbg)) {
        f(prefix, self);
        match self {
            Dbg::Atom(_) => {}
            Dbg::List(v) | Dbg::Tuple(_, v) => {
                for (i, x) in v.iter().enumerate() {
                    let p = if prefix.is_empty() { format!("{i}") } else { format!("{prefix}.{i}") };
                    x.walk(&p, f);
                }
            }
            Dbg::Struct(_, fl) => {
                for (k, x) in fl {
                    let p = if prefix.is_empty() { k.clone() } else { format!("{prefix}.{k}") };
                    x.walk(&p, f);
                }
            }
        }
    }
}

/// Cut `packet_buffer: [...]` out of a `Port` debug string without parsing it.
/// Justification (DESIGN 2.3): every use of the buffer is "serialize into it,
/// then read the prefix just written"; old contents are dead.
pub fn strip_packet_buffer(s: &str) -> String {
    let mut out = String::with_capacity(s.len());
    let mut rest = s;
    const KEY: &str = "packet_buffer: [";
    while let Some(pos) = rest.find(KEY) {
        out.push_str(&rest[..pos]);
        out.push_str("packet_buffer: _");
        let after = &rest[pos + KEY.len()..];
        let end = after.find(']').expect("harness: unterminated packet_buffer");
        rest = &after[end + 1..];
    }
    out.push_str(rest);
    out
}

#[cfg(test)]
mod tests {
    use super::*;
    #[test]
    fn roundtrip() {
        let s = "A { x: Some(B { y: [1, 2], z: \"q,}\" }), w: None, t: (1, 2), u: Slave(S { id: 3 }) }";
        let d = parse(s).unwrap();
        assert_eq!(d.get("x.0.y.1").num::<u8>(), 2);
        assert_eq!(d.render(), s);
    }
}
