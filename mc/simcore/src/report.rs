//! Violations, known findings, replay files, evidence (DESIGN 2.6, 2.9).

use serde_json::{json, Value};
use std::collections::BTreeMap;
use std::path::PathBuf;
use std::time::Instant;

pub const VERIF: &str = "/verif";

#[derive(Clone, Copy, PartialEq, Eq, Debug)]
pub enum Tier {
    Quick,
    Thorough,
}

impl Tier {
    pub fn from_args(arg: Option<&str>) -> Tier {
        let env = std::env::var("VERIF_TIER").ok();
        match env.as_deref().or(arg) {
            Some("thorough") => Tier::Thorough,
            _ => Tier::Quick,
        }
    }
    pub fn name(self) -> &'static str {
        match self {
            Tier::Quick => "quick",
            Tier::Thorough => "thorough",
        }
    }
    pub fn pick<T>(self, q: T, t: T) -> T {
        match self {
            Tier::Quick => q,
            Tier::Thorough => t,
        }
    }
}

pub fn seed() -> i64 {
    std::env::var("VERIF_SEED").ok().and_then(|s| s.parse().ok()).unwrap_or(0)
}

#[derive(Clone, Debug)]
pub struct Violation {
    /// identifies the failing input class / call site, not the whole property
    pub signature: String,
    pub message: String,
    /// everything needed to re-execute exactly this case
    pub replay: Value,
}

struct Known {
    property: String,
    signature: String,
    status: String,
    what: String,
}

pub struct Reporter {
    pub property: String,
    pub tier: Tier,
    pub level: String,
    start: Instant,
    /// signature -> (count, first violation)
    found: BTreeMap<String, (u64, Violation)>,
    known: Vec<Known>,
    pub assumptions: Vec<String>,
    pub coverage: serde_json::Map<String, Value>,
    pub flavour: String,
    /// the unchecked-flavour child, when it was started ahead of time
    child: Option<std::process::Child>,
}

impl Reporter {
    pub fn new(property: &str, tier: Tier, level: &str) -> Reporter {
        let mut known = vec![];
        let path = format!("{VERIF}/known_findings.json");
        if let Ok(text) = std::fs::read_to_string(&path) {
            let v: Value = serde_json::from_str(&text).unwrap_or_else(|e| {
                eprintln!("machinery error: {path} does not parse: {e}");
                std::process::exit(2);
            });
            for e in v["findings"].as_array().cloned().unwrap_or_default() {
                known.push(Known {
                    property: e["property"].as_str().unwrap_or("").to_string(),
                    signature: e["signature"].as_str().unwrap_or("").to_string(),
                    status: e["status"].as_str().unwrap_or("").to_string(),
                    what: e["what"].as_str().unwrap_or("").to_string(),
                });
            }
        }
        Reporter {
            property: property.to_string(),
            tier,
            level: level.to_string(),
            start: Instant::now(),
            found: BTreeMap::new(),
            known,
            assumptions: vec![],
            coverage: serde_json::Map::new(),
            flavour: if cfg!(debug_assertions) { "checked".into() } else { "unchecked".into() },
            child: None,
        }
    }

    pub fn violation(&mut self, v: Violation) {
        let e = self.found.entry(v.signature.clone()).or_insert((0, v));
        e.0 += 1;
    }
    pub fn violations(&mut self, vs: impl IntoIterator<Item = Violation>) {
        for v in vs {
            self.violation(v);
        }
    }
    pub fn n_signatures(&self) -> usize {
        self.found.len()
    }
    pub fn assume(&mut self, s: impl Into<String>) {
        self.assumptions.push(s.into());
    }
    pub fn cover(&mut self, k: &str, v: Value) {
        self.coverage.insert(k.to_string(), v);
    }
    /// add to a numeric coverage entry (creating it at 0)
    pub fn cover_add(&mut self, k: &str, n: u64) {
        let cur = self.coverage.get(k).and_then(|v| v.as_u64()).unwrap_or(0);
        self.coverage.insert(k.to_string(), Value::from(cur + n));
    }
    pub fn elapsed(&self) -> f64 {
        self.start.elapsed().as_secs_f64()
    }

    fn is_known(&self, sig: &str) -> Option<&Known> {
        self.known.iter().find(|k| k.property == self.property && k.status == "known" && k.signature == sig)
    }

    /// Start the unchecked-flavour child now, so that it runs alongside the checked flavour;
    /// `merge_unchecked_flavour` collects it.
    pub fn start_unchecked_flavour(&mut self) {
        if std::env::var("VERIF_SUB").is_ok() {
            return;
        }
        let exe = format!("{VERIF}/target/mc/unchecked/mc");
        match std::process::Command::new(&exe).arg(&self.property).arg(self.tier.name()).env("VERIF_SUB", "1").stdout(std::process::Stdio::piped()).stderr(std::process::Stdio::piped()).spawn() {
            Ok(c) => self.child = Some(c),
            Err(e) => {
                eprintln!("machinery error: cannot run {exe}: {e}");
                std::process::exit(2);
            }
        }
    }

    /// Run the same check in the `unchecked` build flavour (plain release: no debug
    /// assertions, no overflow checks) as a child process and merge what it found.
    pub fn merge_unchecked_flavour(&mut self) {
        if std::env::var("VERIF_SUB").is_ok() {
            return;
        }
        let exe = format!("{VERIF}/target/mc/unchecked/mc");
        let out = match self.child.take() {
            Some(c) => c.wait_with_output(),
            None => std::process::Command::new(&exe).arg(&self.property).arg(self.tier.name()).env("VERIF_SUB", "1").output(),
        };
        let out = match out {
            Ok(o) => o,
            Err(e) => {
                eprintln!("machinery error: cannot run {exe}: {e}");
                std::process::exit(2);
            }
        };
        let text = String::from_utf8_lossy(&out.stdout);
        let line = text.lines().find_map(|l| l.strip_prefix("SUBRESULT "));
        let Some(line) = line else {
            eprintln!("machinery error: unchecked flavour produced no result (status {:?})\n{}\n{}", out.status, text, String::from_utf8_lossy(&out.stderr));
            std::process::exit(2);
        };
        let v: Value = serde_json::from_str(line).expect("SUBRESULT json");
        for x in v["violations"].as_array().unwrap() {
            let viol = Violation {
                signature: format!("unchecked/{}", x["signature"].as_str().unwrap()),
                message: format!("[unchecked build] {}", x["message"].as_str().unwrap()),
                replay: json!({"flavour": "unchecked", "case": x["replay"].clone()}),
            };
            let e = self.found.entry(viol.signature.clone()).or_insert((0, viol));
            e.0 += x["count"].as_u64().unwrap_or(1);
        }
        self.coverage.insert("unchecked_flavour".into(), v["coverage"].clone());
    }

    /// Write evidence, print KNOWN-FINDING / VIOLATION lines, return exit code.
    pub fn finish(mut self) -> i32 {
        if std::env::var("VERIF_SUB").is_ok() {
            let viols: Vec<Value> = self
                .found
                .iter()
                .map(|(sig, (count, v))| json!({"signature": sig, "message": v.message, "replay": v.replay, "count": count}))
                .collect();
            self.coverage.insert("wall_s".into(), json!(self.start.elapsed().as_secs_f64()));
            println!("SUBRESULT {}", json!({"violations": viols, "coverage": Value::Object(self.coverage.clone())}));
            return 0;
        }
        let mut exit = 0;
        let mut new_violations = 0;
        let mut known_hits = vec![];
        let mut lines = vec![];
        let dir = PathBuf::from(format!("{VERIF}/replays/{}", self.property));
        for (sig, (count, v)) in &self.found {
            if let Some(k) = self.is_known(sig) {
                lines.push(format!("KNOWN-FINDING: property={} {} [{}; {} case(s) this run]", self.property, k.what, sig, count));
                known_hits.push(json!({"signature": sig, "cases": count}));
            } else {
                new_violations += 1;
                let _ = std::fs::create_dir_all(&dir);
                let fname = dir.join(format!("{}-{}.json", self.flavour, sanitize(sig)));
                let doc = json!({
                    "property": self.property,
                    "signature": sig,
                    "message": v.message,
                    "cases_with_this_signature": count,
                    "flavour": self.flavour,
                    "replay": v.replay,
                });
                std::fs::write(&fname, serde_json::to_string_pretty(&doc).unwrap()).expect("write replay");
                lines.push(format!("VIOLATION property={} replay={}", self.property, fname.display()));
                lines.push(format!("  signature: {sig}"));
                lines.push(format!("  message:   {}", v.message));
                exit = 1;
            }
        }
        self.coverage.insert("known_findings_hit".into(), json!(known_hits));
        self.coverage.insert("flavour".into(), json!(self.flavour));
        let ev = json!({
            "property_id": self.property,
            "tier": self.tier.name(),
            "seed": seed(),
            "level": self.level,
            "coverage": Value::Object(self.coverage.clone()),
            "assumptions": self.assumptions,
            "wall_s": self.start.elapsed().as_secs_f64(),
            "violations": new_violations,
        });
        // evidence of the two flavours of one check is merged by the driver script
        let suffix = std::env::var("VERIF_EVIDENCE_SUFFIX").unwrap_or_default();
        let path = format!("{VERIF}/evidence/{}{}.json", self.property, suffix);
        let _ = std::fs::create_dir_all(format!("{VERIF}/evidence"));
        std::fs::write(&path, serde_json::to_string_pretty(&ev).unwrap()).expect("write evidence");
        for l in lines {
            println!("{l}");
        }
        println!(
            "{} {} [{}]: {} new violation signature(s), {} known finding(s), {:.1}s",
            self.property,
            self.tier.name(),
            self.flavour,
            new_violations,
            self.found.len() - new_violations as usize,
            self.start.elapsed().as_secs_f64()
        );
        exit
    }
}

pub fn sanitize(s: &str) -> String {
    let mut o: String = s.chars().map(|c| if c.is_ascii_alphanumeric() || c == '-' || c == '_' { c } else { '_' }).collect();
    o.truncate(100);
    o
}

// ---------------------------------------------------------------------------
// panic capture
// ---------------------------------------------------------------------------

use std::cell::RefCell;
thread_local! {
    static LAST_PANIC: RefCell<Option<(String, String)>> = const { RefCell::new(None) };
    static IN_CATCH: std::cell::Cell<u32> = const { std::cell::Cell::new(0) };
}

/// Install a hook that records (message, location) per thread and prints nothing.
pub fn install_quiet_panic_hook() {
    std::panic::set_hook(Box::new(|info| {
        let msg = if let Some(s) = info.payload().downcast_ref::<&str>() {
            s.to_string()
        } else if let Some(s) = info.payload().downcast_ref::<String>() {
            s.clone()
        } else {
            "non-string panic".to_string()
        };
        let mut loc = info.location().map(|l| format!("{}:{}", l.file(), l.line())).unwrap_or_default();
        if let Some(p) = loc.find("/registry/src/") {
            // dependency location: drop the machine-specific prefix, add the first
            // statime frame of the backtrace (captured once per distinct site)
            let short = loc[p + 14..].splitn(2, '/').nth(1).unwrap_or("").to_string();
            let key = format!("{short}|{}", blank_numbers(&msg));
            let mut map = FRAMES.lock().unwrap();
            let frame = map.entry(key).or_insert_with(|| first_statime_frame()).clone();
            loc = format!("{short} via {frame}");
        }
        if msg.starts_with("harness:") || IN_CATCH.with(|c| c.get()) == 0 {
            // not inside a monitored call of the code under test: a bug of the machinery
            eprintln!("MACHINERY ERROR (panic outside a monitored call): {msg} at {loc}");
        }
        LAST_PANIC.with(|p| *p.borrow_mut() = Some((msg, loc)));
    }));
}

static FRAMES: std::sync::Mutex<BTreeMap<String, String>> = std::sync::Mutex::new(BTreeMap::new());

fn first_statime_frame() -> String {
    let bt = std::backtrace::Backtrace::force_capture().to_string();
    for line in bt.lines() {
        let l = line.trim();
        if let Some(p) = l.find("statime::").or_else(|| l.find("statime_linux::")) {
            let f = &l[p..];
            // drop the hash suffix
            let f = match f.rfind("::h") {
                Some(h) if f.len() - h == 19 => &f[..h],
                _ => f,
            };
            if f.contains("simcore") {
                continue;
            }
            return f.to_string();
        }
    }
    "?".to_string()
}

pub fn blank_numbers(m: &str) -> String {
    let mut msg = String::new();
    let mut last_digit = false;
    for c in m.chars() {
        if c.is_ascii_digit() {
            if !last_digit {
                msg.push('N');
            }
            last_digit = true;
        } else {
            last_digit = false;
            msg.push(c);
        }
    }
    msg
}

#[derive(Clone, Debug)]
pub struct Caught {
    pub message: String,
    pub location: String,
}

impl Caught {
    /// call-site signature: where + a message with numbers blanked out
    pub fn signature(&self) -> String {
        let loc = self.location.replace("/repo/", "");
        let mut msg = blank_numbers(&self.message);
        msg.truncate(80);
        format!("panic@{loc}:{msg}")
    }
    pub fn is_harness(&self) -> bool {
        self.message.starts_with("harness:")
    }
}

/// Run `f`, catching a panic of the code under test.
pub fn catch<R>(f: impl FnOnce() -> R) -> Result<R, Caught> {
    LAST_PANIC.with(|p| *p.borrow_mut() = None);
    IN_CATCH.with(|c| c.set(c.get() + 1));
    let res = std::panic::catch_unwind(std::panic::AssertUnwindSafe(f));
    IN_CATCH.with(|c| c.set(c.get() - 1));
    match res {
        Ok(r) => Ok(r),
        Err(_) => {
            let (message, location) =
                LAST_PANIC.with(|p| p.borrow_mut().take()).unwrap_or(("unknown".into(), "".into()));
            let c = Caught { message, location };
            if c.is_harness() {
                eprintln!("machinery error: {} at {}", c.message, c.location);
                std::process::exit(2);
            }
            Err(c)
        }
    }
}
