//! E1 — explicit-state breadth-first search whose transition function is the
//! real code.  A state is represented by the event history that reaches it;
//! expanding it rebuilds fresh real objects, replays the history and applies one
//! more event.  Frontier expansion is parallel, merging is sequential in a fixed
//! order, so counts are identical from run to run.

use rayon::prelude::*;
use std::collections::HashSet;
use std::hash::{Hash, Hasher};
use std::time::Instant;

use crate::report::Violation;

pub struct Outcome<E> {
    /// canonical state text (hashed to 128 bits by the engine)
    pub key: String,
    /// coarse observable outcome (for the distinct-outcome count)
    pub observable: String,
    /// violations caused by the *last* event of the history
    pub violations: Vec<Violation>,
    /// events to try from the resulting state
    pub next: Vec<E>,
    /// do not expand (e.g. the last event panicked)
    pub dead: bool,
}

pub trait System: Sync {
    type Ev: Clone + Send + Sync + std::fmt::Debug;
    fn run(&self, hist: &[Self::Ev]) -> Outcome<Self::Ev>;
}

#[derive(Default, Debug, Clone)]
pub struct Stats {
    pub states: u64,
    pub transitions: u64,
    pub depth_completed: usize,
    pub per_depth_new_states: Vec<u64>,
    pub closed: bool,
    pub capped: Option<String>,
    pub outcomes: usize,
    pub sample_histories: Vec<String>,
    pub dead_ends: u64,
}

fn hash128(s: &str) -> u128 {
    let mut a = std::collections::hash_map::DefaultHasher::new();
    0x5151u16.hash(&mut a);
    s.hash(&mut a);
    let mut b = std::collections::hash_map::DefaultHasher::new();
    0xa7a7_a7a7u32.hash(&mut b);
    s.len().hash(&mut b);
    s.hash(&mut b);
    ((a.finish() as u128) << 64) | b.finish() as u128
}

pub struct Limits {
    pub max_depth: usize,
    pub max_seconds: f64,
    pub max_states: u64,
}

pub fn explore<S: System>(sys: &S, lim: &Limits) -> (Stats, Vec<Violation>) {
    let start = Instant::now();
    let mut stats = Stats::default();
    let mut viols = vec![];
    let mut seen: HashSet<u128> = HashSet::new();
    let mut outcomes: HashSet<String> = HashSet::new();
    // determinism self-check on the root
    let root = sys.run(&[]);
    let root2 = sys.run(&[]);
    if root.key != root2.key {
        eprintln!("machinery error: the system is not deterministic (root state differs between two runs)");
        std::process::exit(2);
    }
    seen.insert(hash128(&root.key));
    outcomes.insert(root.observable.clone());
    stats.states = 1;
    stats.per_depth_new_states.push(1);
    viols.extend(root.violations);
    let mut frontier: Vec<(Vec<S::Ev>, Vec<S::Ev>)> = vec![(vec![], root.next)];
    let mut checked_determinism = 0;
    for depth in 1..=lim.max_depth {
        if frontier.is_empty() {
            stats.closed = true;
            break;
        }
        let tasks: Vec<(usize, usize)> =
            frontier.iter().enumerate().flat_map(|(i, (_, next))| (0..next.len()).map(move |j| (i, j))).collect();
        if start.elapsed().as_secs_f64() > lim.max_seconds {
            stats.capped = Some(format!("time cap {}s reached before depth {}", lim.max_seconds, depth));
            break;
        }
        // expand in chunks so that memory stays bounded and the caps are honoured inside a level
        let mut new_frontier = vec![];
        let mut new_states = 0u64;
        let mut level_complete = true;
        for chunk in tasks.chunks(100_000) {
            if start.elapsed().as_secs_f64() > lim.max_seconds {
                stats.capped = Some(format!("time cap {}s reached inside depth {}", lim.max_seconds, depth));
                level_complete = false;
                break;
            }
            // (history, key hash, observable, violations, next, dead): the key text is dropped at once
            let results: Vec<(Vec<S::Ev>, u128, String, Vec<Violation>, Vec<S::Ev>, bool)> = chunk
                .par_iter()
                .map(|&(i, j)| {
                    let mut h = frontier[i].0.clone();
                    h.push(frontier[i].1[j].clone());
                    let o = sys.run(&h);
                    (h, hash128(&o.key), o.observable, o.violations, o.next, o.dead)
                })
                .collect();
            stats.transitions += results.len() as u64;
            for (h, key, observable, violations, next, dead) in results {
                if checked_determinism < 8 {
                    checked_determinism += 1;
                    let again = sys.run(&h);
                    if hash128(&again.key) != key {
                        eprintln!("machinery error: the system is not deterministic for history {:?}", h);
                        std::process::exit(2);
                    }
                }
                outcomes.insert(observable);
                viols.extend(violations);
                if viols.len() > 2000 {
                    // keep one per signature
                    let mut seen_sig = HashSet::new();
                    viols.retain(|v| seen_sig.insert(v.signature.clone()));
                }
                if dead {
                    stats.dead_ends += 1;
                    continue;
                }
                if seen.insert(key) {
                    new_states += 1;
                    if stats.sample_histories.len() < 5 && (new_states % 97 == 1) {
                        stats.sample_histories.push(format!("{:?}", h));
                    }
                    new_frontier.push((h, next));
                }
            }
            if stats.states + new_states > lim.max_states {
                stats.capped = Some(format!("state cap {} reached inside depth {}", lim.max_states, depth));
                level_complete = false;
                break;
            }
        }
        stats.states += new_states;
        stats.per_depth_new_states.push(new_states);
        if std::env::var("VERIF_PROGRESS").is_ok() {
            let rss = std::fs::read_to_string("/proc/self/statm").ok().and_then(|s| s.split_whitespace().nth(1).and_then(|x| x.parse::<u64>().ok())).unwrap_or(0) * 4096 / (1 << 20);
            eprintln!("progress: depth {depth} new states {new_states} total {} frontier {} elapsed {:.0}s rss {} MiB", stats.states, new_frontier.len(), start.elapsed().as_secs_f64(), rss);
        }
        if !level_complete {
            frontier = new_frontier;
            break;
        }
        stats.depth_completed = depth;
        frontier = new_frontier;
    }
    if frontier.is_empty() && stats.capped.is_none() {
        stats.closed = true;
    }
    stats.outcomes = outcomes.len();
    (stats, viols)
}

impl Stats {
    pub fn to_json(&self) -> serde_json::Value {
        serde_json::json!({
            "states": self.states,
            "transitions": self.transitions,
            "depth_completed": self.depth_completed,
            "per_depth_new_states": self.per_depth_new_states,
            "closed": self.closed,
            "capped": self.capped,
            "distinct_outcomes": self.outcomes,
            "dead_ends": self.dead_ends,
        })
    }
}
