//! Peers and seed histories: reference-encoded frames from simulated remote
//! clocks, and helpers that bring a real port into a base state through its
//! public handlers only.

use crate::harness::*;
use crate::refcodec::*;
use statime::filters::Filter;
use statime::port::NoForwardedTLVs;
use statime::time::Time;

#[derive(Clone, Debug)]
pub struct Peer {
    pub pid: Pid,
    pub gm_identity: [u8; 8],
    pub priority1: u8,
    pub class: u8,
    pub accuracy: u8,
    pub variance: u16,
    pub priority2: u8,
    pub steps_removed: u16,
    pub utc_offset: i16,
    pub time_source: u8,
    pub flags: [u8; 2],
    pub domain: u8,
    pub sdo: u16,
    pub announce_seq: u16,
    pub sync_seq: u16,
    pub log_announce: i8,
}

impl Peer {
    /// a grandmaster clock announcing itself
    pub fn gm(id: u8, priority1: u8) -> Peer {
        let clock = [0xaa, 0, 0, 0, 0, 0, 0, id];
        Peer {
            pid: Pid { clock, port: 1 },
            gm_identity: clock,
            priority1,
            class: 248,
            accuracy: 0xfe,
            variance: 0xffff,
            priority2: 128,
            steps_removed: 0,
            utc_offset: 37,
            time_source: 0xa0,
            flags: [0, 0],
            domain: 0,
            sdo: 0,
            announce_seq: 0,
            sync_seq: 0,
            log_announce: 0,
        }
    }
    pub fn hdr(&self, seq: u16) -> Hdr {
        Hdr {
            source: self.pid.clone(),
            seq,
            domain: self.domain,
            major_sdo: (self.sdo >> 8) as u8,
            minor_sdo: self.sdo as u8,
            ..Default::default()
        }
    }
    pub fn announce_body(&self) -> AnnounceBody {
        AnnounceBody {
            origin: Ts::default(),
            utc_offset: self.utc_offset,
            reserved: 0,
            gm_priority1: self.priority1,
            gm_class: self.class,
            gm_accuracy: self.accuracy,
            gm_variance: self.variance,
            gm_priority2: self.priority2,
            gm_identity: self.gm_identity,
            steps_removed: self.steps_removed,
            time_source: self.time_source,
        }
    }
    pub fn announce_msg(&self, seq: u16) -> Msg {
        let mut h = self.hdr(seq);
        h.flags = self.flags;
        h.log_interval = self.log_announce;
        Msg::new(h, Body::Announce(self.announce_body()))
    }
    /// next Announce (advances the peer's sequence counter)
    pub fn announce(&mut self) -> Vec<u8> {
        let s = self.announce_seq;
        self.announce_seq = s.wrapping_add(1);
        encode(&self.announce_msg(s))
    }
    pub fn announce_with_tlvs(&mut self, tlvs: Vec<Tlv>) -> Vec<u8> {
        let s = self.announce_seq;
        self.announce_seq = s.wrapping_add(1);
        encode(&self.announce_msg(s).with_tlvs(tlvs))
    }
    pub fn sync(&self, seq: u16, two_step: bool, origin: Ts, correction: i64) -> Vec<u8> {
        let mut h = self.hdr(seq);
        h.set_flag(F_TWO_STEP, two_step);
        h.correction = correction;
        encode(&Msg::new(h, Body::Sync { origin }))
    }
    pub fn follow_up(&self, seq: u16, precise: Ts, correction: i64) -> Vec<u8> {
        let mut h = self.hdr(seq);
        h.correction = correction;
        encode(&Msg::new(h, Body::FollowUp { precise_origin: precise }))
    }
    pub fn delay_resp(&self, seq: u16, receive: Ts, correction: i64, requester: &Pid) -> Vec<u8> {
        let mut h = self.hdr(seq);
        h.correction = correction;
        encode(&Msg::new(h, Body::DelayResp { receive, requester: requester.clone() }))
    }
    pub fn pdelay_resp(&self, seq: u16, two_step: bool, receipt: Ts, correction: i64, requester: &Pid) -> Vec<u8> {
        let mut h = self.hdr(seq);
        h.set_flag(F_TWO_STEP, two_step);
        h.correction = correction;
        encode(&Msg::new(h, Body::PdelayResp { receipt, requester: requester.clone() }))
    }
    pub fn pdelay_resp_fup(&self, seq: u16, origin: Ts, correction: i64, requester: &Pid) -> Vec<u8> {
        let mut h = self.hdr(seq);
        h.correction = correction;
        encode(&Msg::new(h, Body::PdelayRespFollowUp { response_origin: origin, requester: requester.clone() }))
    }
    pub fn delay_req(&self, seq: u16, correction: i64) -> Vec<u8> {
        let mut h = self.hdr(seq);
        h.correction = correction;
        h.log_interval = 0x7f;
        encode(&Msg::new(h, Body::DelayReq { origin: Ts::default() }))
    }
    pub fn pdelay_req(&self, seq: u16, correction: i64) -> Vec<u8> {
        let mut h = self.hdr(seq);
        h.correction = correction;
        encode(&Msg::new(h, Body::PdelayReq { origin: Ts::default(), reserved: [0; 10] }))
    }
}

/// Deliver a general-interface frame to port `p`.
pub fn general<F: Filter>(node: &mut Node<'_, F>, p: usize, frame: &[u8]) -> Vec<Act> {
    collect(node.port(p).handle_general_receive(frame))
}
/// Deliver an event-interface frame to port `p`.
pub fn event<F: Filter>(node: &mut Node<'_, F>, p: usize, frame: &[u8], ts: Time) -> Vec<Act> {
    collect(node.port(p).handle_event_receive(frame, ts))
}

/// Two consecutive Announces from `peer` on port `p`, then a BMCA run.  If the
/// peer is better than the node (and nothing else is known) the port ends slave.
pub fn announce_twice_and_bmca<F: Filter>(node: &mut Node<'_, F>, p: usize, peer: &mut Peer) -> Vec<Vec<Act>> {
    let a = peer.announce();
    let _ = general(node, p, &a);
    let b = peer.announce();
    let _ = general(node, p, &b);
    node.bmca()
}

/// Fire the announce receipt timeout on port `p` (not slave-only: becomes master).
pub fn receipt_timeout<F: Filter>(node: &mut Node<'_, F>, p: usize) -> Vec<Act> {
    collect(node.port(p).handle_announce_receipt_timer())
}

pub fn announce_timer<F: Filter>(node: &mut Node<'_, F>, p: usize) -> Vec<Act> {
    collect(node.port(p).handle_announce_timer(&mut NoForwardedTLVs))
}
pub fn sync_timer<F: Filter>(node: &mut Node<'_, F>, p: usize) -> Vec<Act> {
    collect(node.port(p).handle_sync_timer())
}
pub fn delay_timer<F: Filter>(node: &mut Node<'_, F>, p: usize) -> Vec<Act> {
    collect(node.port(p).handle_delay_request_timer())
}
pub fn filter_timer<F: Filter>(node: &mut Node<'_, F>, p: usize) -> Vec<Act> {
    collect(node.port(p).handle_filter_update_timer())
}

pub fn port_state<F: Filter>(node: &Node<'_, F>, p: usize) -> statime::observability::port::PortState {
    node.port_ref(p).port_ds().port_state
}

pub fn state_name(s: statime::observability::port::PortState) -> &'static str {
    use statime::observability::port::PortState as S;
    match s {
        S::Faulty => "Faulty",
        S::Listening => "Listening",
        S::Master => "Master",
        S::Passive => "Passive",
        S::Slave => "Slave",
        _ => "Other",
    }
}

/// take the timestamp context out of the first SendEvent action
pub fn take_ctx(acts: &mut [Act]) -> Option<(statime::port::TimestampContext, Vec<u8>)> {
    for a in acts.iter_mut() {
        if let Act::SendEvent { ctx, data, .. } = a {
            if let Some(c) = ctx.take() {
                return Some((c, data.clone()));
            }
        }
    }
    None
}

pub fn own_pid<F: Filter>(node: &Node<'_, F>, p: usize) -> Pid {
    let id = node.port_ref(p).port_ds().port_identity;
    Pid { clock: id.clock_identity.0, port: id.port_number }
}
