//! Name tables written from IEEE 1588-2019 tables 5 (clockAccuracy), 6
//! (timeSource) and 15.4.1.6 (actionField), mapping the variant names that
//! statime's public enums print to the octet the standard assigns.  Used to read
//! decoded values out of `Debug` output without calling statime's own
//! `to_primitive`.

use crate::dbg::Dbg;

pub fn accuracy_octet(d: &Dbg) -> Option<u8> {
    Some(match d {
        Dbg::Atom(a) => match a.as_str() {
            "PS1" => 0x17,
            "PS2_5" => 0x18,
            "PS10" => 0x19,
            "PS25" => 0x1a,
            "PS100" => 0x1b,
            "PS250" => 0x1c,
            "NS1" => 0x1d,
            "NS2_5" => 0x1e,
            "NS10" => 0x1f,
            "NS25" => 0x20,
            "NS100" => 0x21,
            "NS250" => 0x22,
            "US1" => 0x23,
            "US2_5" => 0x24,
            "US10" => 0x25,
            "US25" => 0x26,
            "US100" => 0x27,
            "US250" => 0x28,
            "MS1" => 0x29,
            "MS2_5" => 0x2a,
            "MS10" => 0x2b,
            "MS25" => 0x2c,
            "MS100" => 0x2d,
            "MS250" => 0x2e,
            "S1" => 0x2f,
            "S10" => 0x30,
            "SGT10" => 0x31,
            "Unknown" => 0xfe,
            // `Reserved` carries no value: the octet is not recoverable
            _ => return None,
        },
        Dbg::Tuple(n, v) if n == "ProfileSpecific" && v.len() == 1 => 0x80u8.checked_add(v[0].num::<u8>())?,
        _ => return None,
    })
}

/// is `o` an octet table 5 leaves reserved?
pub fn accuracy_reserved(o: u8) -> bool {
    matches!(o, 0x00..=0x16 | 0x32..=0x7f | 0xff)
}

pub fn time_source_octet(d: &Dbg) -> Option<u8> {
    Some(match d {
        Dbg::Atom(a) => match a.as_str() {
            "AtomicClock" => 0x10,
            "Gnss" => 0x20,
            "TerrestrialRadio" => 0x30,
            "SerialTimeCode" => 0x39,
            "Ptp" => 0x40,
            "Ntp" => 0x50,
            "HandSet" => 0x60,
            "Other" => 0x90,
            "InternalOscillator" => 0xa0,
            "Reserved" => 0xff,
            _ => return None,
        },
        Dbg::Tuple(n, v) if n == "ProfileSpecific" && v.len() == 1 => 0xf0u8.checked_add(v[0].num::<u8>())?,
        Dbg::Tuple(n, v) if n == "Unknown" && v.len() == 1 => v[0].num::<u8>(),
        _ => return None,
    })
}

pub fn action_nibble(d: &Dbg) -> Option<u8> {
    Some(match d.atom() {
        "GET" => 0,
        "SET" => 1,
        "RESPONSE" => 2,
        "COMMAND" => 3,
        "ACKNOWLEDGE" => 4,
        _ => return None,
    })
}

/// Parse the decimal text `fixed` prints for a fixed-point number into raw bits
/// with `frac` fractional bits (round to nearest; exact for exact decimals).
pub fn fixed_bits(text: &str, frac: u32) -> i128 {
    let t = text.trim();
    let (neg, t) = match t.strip_prefix('-') {
        Some(r) => (true, r),
        None => (false, t),
    };
    let (ip, fp) = match t.split_once('.') {
        Some((a, b)) => (a, b),
        None => (t, ""),
    };
    let int: i128 = if ip.is_empty() { 0 } else { ip.parse().expect("harness: fixed int part") };
    // fraction: sum digits exactly as rational num/10^k, then scale by 2^frac
    let mut num: u128 = 0;
    let mut den: u128 = 1;
    for c in fp.chars().take(36) {
        num = num * 10 + c.to_digit(10).expect("harness: fixed frac digit") as u128;
        den *= 10;
    }
    // round(num * 2^frac / den); num < 10^36 < 2^120 so scale in two steps with u128 care
    let scaled = mul_div_round(num, 1u128 << frac, den);
    let bits = (int << frac) + scaled as i128;
    if neg {
        -bits
    } else {
        bits
    }
}

fn mul_div_round(a: u128, b: u128, c: u128) -> u128 {
    // a < c (fraction < 1), b = 2^frac with frac <= 32: do long division
    // result = floor((a*b + c/2)/c); a*b may overflow u128 when a ~ 10^36 and b = 2^32,
    // so use a loop over bits of b (b is a power of two).
    let mut rem = a;
    let mut q: u128 = 0;
    let shifts = b.trailing_zeros();
    for _ in 0..shifts {
        rem *= 2; // rem < c <= 10^36 so rem*2 < 2^121
        q *= 2;
        if rem >= c {
            rem -= c;
            q += 1;
        }
    }
    if rem * 2 >= c {
        q += 1;
    }
    q
}

#[cfg(test)]
mod tests {
    use super::*;
    #[test]
    fn fixed() {
        assert_eq!(fixed_bits("1.5", 16), 3 << 15);
        assert_eq!(fixed_bits("-0.0000152587890625", 16), -1);
        assert_eq!(fixed_bits("12", 32), 12i128 << 32);
    }
}
