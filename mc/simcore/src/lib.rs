pub mod dbg;
pub mod harness;
pub mod refcodec;
pub mod refnames;
pub mod report;
pub mod scen;
pub mod bfs;
pub mod world;
