//! Independent reference codec for PTP messages, written from IEEE 1588-2019
//! clause 13 (tables 35-47), 14 (TLV framing) and 15.4.1 (management message).
//! Shares no code with statime.

#[derive(Clone, Debug, PartialEq, Eq, Hash, Default)]
pub struct Pid {
    pub clock: [u8; 8],
    pub port: u16,
}

#[derive(Clone, Copy, Debug, PartialEq, Eq, Hash, Default)]
pub struct Ts {
    pub secs: u64, // 48 bit
    pub nanos: u32,
}

impl Ts {
    pub fn from_ns(ns: u128) -> Ts {
        Ts { secs: (ns / 1_000_000_000) as u64, nanos: (ns % 1_000_000_000) as u32 }
    }
    pub fn to_ns(self) -> u128 {
        self.secs as u128 * 1_000_000_000 + self.nanos as u128
    }
}

// flag bits, as (octet, bit)
pub const F_ALT_MASTER: (usize, u8) = (0, 0);
pub const F_TWO_STEP: (usize, u8) = (0, 1);
pub const F_UNICAST: (usize, u8) = (0, 2);
pub const F_PROFILE1: (usize, u8) = (0, 5);
pub const F_PROFILE2: (usize, u8) = (0, 6);
pub const F_LEAP61: (usize, u8) = (1, 0);
pub const F_LEAP59: (usize, u8) = (1, 1);
pub const F_UTC_VALID: (usize, u8) = (1, 2);
pub const F_PTP_TIMESCALE: (usize, u8) = (1, 3);
pub const F_TIME_TRACEABLE: (usize, u8) = (1, 4);
pub const F_FREQ_TRACEABLE: (usize, u8) = (1, 5);
pub const F_SYNC_UNCERTAIN: (usize, u8) = (1, 6);

/// the twelve flag bits IEEE 1588-2019 table 37 defines
pub const DEFINED_FLAGS: [(usize, u8); 12] = [
    F_ALT_MASTER, F_TWO_STEP, F_UNICAST, F_PROFILE1, F_PROFILE2, F_LEAP61, F_LEAP59, F_UTC_VALID,
    F_PTP_TIMESCALE, F_TIME_TRACEABLE, F_FREQ_TRACEABLE, F_SYNC_UNCERTAIN,
];
pub const DEFINED_FLAG_MASK: [u8; 2] = [0b0110_0111, 0b0111_1111];

#[derive(Clone, Debug, PartialEq, Eq, Hash)]
pub struct Hdr {
    pub major_sdo: u8, // nibble
    pub msg_type: u8,  // nibble
    pub minor_version: u8,
    pub version: u8,
    /// None = compute from content
    pub length: Option<u16>,
    pub domain: u8,
    pub minor_sdo: u8,
    pub flags: [u8; 2],
    pub correction: i64,
    pub type_specific: [u8; 4],
    pub source: Pid,
    pub seq: u16,
    /// None = derive from type (table 42)
    pub control: Option<u8>,
    pub log_interval: i8,
}

impl Default for Hdr {
    fn default() -> Self {
        Hdr {
            major_sdo: 0,
            msg_type: 0,
            minor_version: 1,
            version: 2,
            length: None,
            domain: 0,
            minor_sdo: 0,
            flags: [0, 0],
            correction: 0,
            type_specific: [0; 4],
            source: Pid::default(),
            seq: 0,
            control: None,
            log_interval: 0,
        }
    }
}

impl Hdr {
    pub fn flag(&self, f: (usize, u8)) -> bool {
        self.flags[f.0] & (1 << f.1) != 0
    }
    pub fn set_flag(&mut self, f: (usize, u8), v: bool) {
        if v {
            self.flags[f.0] |= 1 << f.1;
        } else {
            self.flags[f.0] &= !(1 << f.1);
        }
    }
    pub fn sdo(&self) -> u16 {
        ((self.major_sdo as u16) << 8) | self.minor_sdo as u16
    }
}

#[derive(Clone, Debug, PartialEq, Eq, Hash, Default)]
pub struct AnnounceBody {
    pub origin: Ts,
    pub utc_offset: i16,
    pub reserved: u8,
    pub gm_priority1: u8,
    pub gm_class: u8,
    pub gm_accuracy: u8,
    pub gm_variance: u16,
    pub gm_priority2: u8,
    pub gm_identity: [u8; 8],
    pub steps_removed: u16,
    pub time_source: u8,
}

#[derive(Clone, Debug, PartialEq, Eq, Hash)]
pub enum Body {
    Sync { origin: Ts },
    DelayReq { origin: Ts },
    PdelayReq { origin: Ts, reserved: [u8; 10] },
    PdelayResp { receipt: Ts, requester: Pid },
    FollowUp { precise_origin: Ts },
    DelayResp { receive: Ts, requester: Pid },
    PdelayRespFollowUp { response_origin: Ts, requester: Pid },
    Announce(AnnounceBody),
    Signaling { target: Pid },
    Management { target: Pid, starting_hops: u8, hops: u8, action: u8, reserved: u8 },
    /// undefined message type nibble: opaque body
    Raw(Vec<u8>),
}

pub const SYNC: u8 = 0x0;
pub const DELAY_REQ: u8 = 0x1;
pub const PDELAY_REQ: u8 = 0x2;
pub const PDELAY_RESP: u8 = 0x3;
pub const FOLLOW_UP: u8 = 0x8;
pub const DELAY_RESP: u8 = 0x9;
pub const PDELAY_RESP_FUP: u8 = 0xa;
pub const ANNOUNCE: u8 = 0xb;
pub const SIGNALING: u8 = 0xc;
pub const MANAGEMENT: u8 = 0xd;

pub const DEFINED_TYPES: [u8; 10] =
    [SYNC, DELAY_REQ, PDELAY_REQ, PDELAY_RESP, FOLLOW_UP, DELAY_RESP, PDELAY_RESP_FUP, ANNOUNCE, SIGNALING, MANAGEMENT];

pub fn type_name(t: u8) -> &'static str {
    match t {
        SYNC => "Sync",
        DELAY_REQ => "Delay_Req",
        PDELAY_REQ => "Pdelay_Req",
        PDELAY_RESP => "Pdelay_Resp",
        FOLLOW_UP => "Follow_Up",
        DELAY_RESP => "Delay_Resp",
        PDELAY_RESP_FUP => "Pdelay_Resp_Follow_Up",
        ANNOUNCE => "Announce",
        SIGNALING => "Signaling",
        MANAGEMENT => "Management",
        _ => "undefined",
    }
}

/// body length for each defined type (tables 43-50, 15.4.1)
pub fn body_len(t: u8) -> Option<usize> {
    Some(match t {
        SYNC | DELAY_REQ | FOLLOW_UP => 10,
        PDELAY_REQ | PDELAY_RESP | DELAY_RESP | PDELAY_RESP_FUP => 20,
        ANNOUNCE => 30,
        SIGNALING => 10,
        MANAGEMENT => 14,
        _ => return None,
    })
}

/// controlField per table 42
pub fn control_for(t: u8) -> u8 {
    match t {
        SYNC => 0,
        DELAY_REQ => 1,
        FOLLOW_UP => 2,
        DELAY_RESP => 3,
        MANAGEMENT => 4,
        _ => 5,
    }
}

#[derive(Clone, Debug, PartialEq, Eq, Hash)]
pub struct Tlv {
    pub typ: u16,
    pub value: Vec<u8>,
}

impl Tlv {
    pub fn wire_len(&self) -> usize {
        4 + self.value.len()
    }
    /// table 52 + 14.2: types a boundary clock propagates on Announce
    pub fn propagates(&self) -> bool {
        propagating_type(self.typ)
    }
}

pub fn propagating_type(t: u16) -> bool {
    matches!(t, 0x0008 | 0x0009 | 0x4000..=0x7fff)
}

pub const TLV_PATH_TRACE: u16 = 0x0008;

#[derive(Clone, Debug, PartialEq, Eq, Hash)]
pub struct Msg {
    pub hdr: Hdr,
    pub body: Body,
    pub tlvs: Vec<Tlv>,
    /// bytes after the last complete TLV but inside messageLength (malformed)
    pub trailing: Vec<u8>,
}

impl Msg {
    pub fn new(hdr: Hdr, body: Body) -> Msg {
        let mut m = Msg { hdr, body, tlvs: vec![], trailing: vec![] };
        m.hdr.msg_type = m.body.type_nibble().unwrap_or(m.hdr.msg_type);
        m
    }
    pub fn with_tlvs(mut self, t: Vec<Tlv>) -> Msg {
        self.tlvs = t;
        self
    }
}

impl Body {
    pub fn type_nibble(&self) -> Option<u8> {
        Some(match self {
            Body::Sync { .. } => SYNC,
            Body::DelayReq { .. } => DELAY_REQ,
            Body::PdelayReq { .. } => PDELAY_REQ,
            Body::PdelayResp { .. } => PDELAY_RESP,
            Body::FollowUp { .. } => FOLLOW_UP,
            Body::DelayResp { .. } => DELAY_RESP,
            Body::PdelayRespFollowUp { .. } => PDELAY_RESP_FUP,
            Body::Announce(_) => ANNOUNCE,
            Body::Signaling { .. } => SIGNALING,
            Body::Management { .. } => MANAGEMENT,
            Body::Raw(_) => return None,
        })
    }
}

fn put_ts(out: &mut Vec<u8>, t: Ts) {
    out.extend_from_slice(&t.secs.to_be_bytes()[2..8]);
    out.extend_from_slice(&t.nanos.to_be_bytes());
}
fn put_pid(out: &mut Vec<u8>, p: &Pid) {
    out.extend_from_slice(&p.clock);
    out.extend_from_slice(&p.port.to_be_bytes());
}
fn get_ts(b: &[u8]) -> Ts {
    let mut s = [0u8; 8];
    s[2..8].copy_from_slice(&b[0..6]);
    Ts { secs: u64::from_be_bytes(s), nanos: u32::from_be_bytes([b[6], b[7], b[8], b[9]]) }
}
fn get_pid(b: &[u8]) -> Pid {
    let mut c = [0u8; 8];
    c.copy_from_slice(&b[0..8]);
    Pid { clock: c, port: u16::from_be_bytes([b[8], b[9]]) }
}

pub fn encode_body(b: &Body) -> Vec<u8> {
    let mut o = vec![];
    match b {
        Body::Sync { origin } | Body::DelayReq { origin } => put_ts(&mut o, *origin),
        Body::FollowUp { precise_origin } => put_ts(&mut o, *precise_origin),
        Body::PdelayReq { origin, reserved } => {
            put_ts(&mut o, *origin);
            o.extend_from_slice(reserved);
        }
        Body::PdelayResp { receipt, requester } => {
            put_ts(&mut o, *receipt);
            put_pid(&mut o, requester);
        }
        Body::DelayResp { receive, requester } => {
            put_ts(&mut o, *receive);
            put_pid(&mut o, requester);
        }
        Body::PdelayRespFollowUp { response_origin, requester } => {
            put_ts(&mut o, *response_origin);
            put_pid(&mut o, requester);
        }
        Body::Announce(a) => {
            put_ts(&mut o, a.origin);
            o.extend_from_slice(&a.utc_offset.to_be_bytes());
            o.push(a.reserved);
            o.push(a.gm_priority1);
            o.push(a.gm_class);
            o.push(a.gm_accuracy);
            o.extend_from_slice(&a.gm_variance.to_be_bytes());
            o.push(a.gm_priority2);
            o.extend_from_slice(&a.gm_identity);
            o.extend_from_slice(&a.steps_removed.to_be_bytes());
            o.push(a.time_source);
        }
        Body::Signaling { target } => put_pid(&mut o, target),
        Body::Management { target, starting_hops, hops, action, reserved } => {
            put_pid(&mut o, target);
            o.push(*starting_hops);
            o.push(*hops);
            o.push(*action); // high nibble reserved, low nibble actionField
            o.push(*reserved);
        }
        Body::Raw(r) => o.extend_from_slice(r),
    }
    o
}

pub fn encode_tlvs(t: &[Tlv]) -> Vec<u8> {
    let mut o = vec![];
    for x in t {
        o.extend_from_slice(&x.typ.to_be_bytes());
        o.extend_from_slice(&(x.value.len() as u16).to_be_bytes());
        o.extend_from_slice(&x.value);
    }
    o
}

pub fn encode(m: &Msg) -> Vec<u8> {
    let body = encode_body(&m.body);
    let tl = encode_tlvs(&m.tlvs);
    let total = 34 + body.len() + tl.len() + m.trailing.len();
    let h = &m.hdr;
    let mut o = Vec::with_capacity(total);
    o.push((h.major_sdo << 4) | (h.msg_type & 0x0f));
    o.push((h.minor_version << 4) | (h.version & 0x0f));
    o.extend_from_slice(&h.length.unwrap_or(total as u16).to_be_bytes());
    o.push(h.domain);
    o.push(h.minor_sdo);
    o.extend_from_slice(&h.flags);
    o.extend_from_slice(&h.correction.to_be_bytes());
    o.extend_from_slice(&h.type_specific);
    put_pid(&mut o, &h.source);
    o.extend_from_slice(&h.seq.to_be_bytes());
    o.push(h.control.unwrap_or(control_for(h.msg_type)));
    o.push(h.log_interval as u8);
    o.extend_from_slice(&body);
    o.extend_from_slice(&tl);
    o.extend_from_slice(&m.trailing);
    o
}

#[derive(Clone, Debug, PartialEq, Eq)]
pub enum DecodeErr {
    /// fewer than 34 bytes
    ShortHeader,
    /// messageLength < 34 or < 34 + body
    BadLength,
    /// messageLength exceeds the buffer
    Truncated,
    /// message type nibble not defined
    UnknownType,
    /// a TLV's declared length exceeds what is left, or < 4 bytes are left over
    BadTlv,
}

/// Decode.  Only the first `messageLength` bytes are looked at.  `lenient_tlv`:
/// stop at a malformed TLV and put the rest into `trailing` instead of failing.
pub fn decode(buf: &[u8]) -> Result<Msg, DecodeErr> {
    decode_opt(buf, false)
}

pub fn decode_opt(buf: &[u8], lenient_tlv: bool) -> Result<Msg, DecodeErr> {
    if buf.len() < 34 {
        return Err(DecodeErr::ShortHeader);
    }
    let length = u16::from_be_bytes([buf[2], buf[3]]);
    let mut h = Hdr {
        major_sdo: buf[0] >> 4,
        msg_type: buf[0] & 0x0f,
        minor_version: buf[1] >> 4,
        version: buf[1] & 0x0f,
        length: Some(length),
        domain: buf[4],
        minor_sdo: buf[5],
        flags: [buf[6], buf[7]],
        correction: i64::from_be_bytes(buf[8..16].try_into().unwrap()),
        type_specific: buf[16..20].try_into().unwrap(),
        source: get_pid(&buf[20..30]),
        seq: u16::from_be_bytes([buf[30], buf[31]]),
        control: Some(buf[32]),
        log_interval: buf[33] as i8,
    };
    let blen = match body_len(h.msg_type) {
        Some(l) => l,
        None => return Err(DecodeErr::UnknownType),
    };
    if (length as usize) < 34 + blen {
        return Err(DecodeErr::BadLength);
    }
    if length as usize > buf.len() {
        return Err(DecodeErr::Truncated);
    }
    let b = &buf[34..34 + blen];
    let body = match h.msg_type {
        SYNC => Body::Sync { origin: get_ts(b) },
        DELAY_REQ => Body::DelayReq { origin: get_ts(b) },
        FOLLOW_UP => Body::FollowUp { precise_origin: get_ts(b) },
        PDELAY_REQ => Body::PdelayReq { origin: get_ts(b), reserved: b[10..20].try_into().unwrap() },
        PDELAY_RESP => Body::PdelayResp { receipt: get_ts(b), requester: get_pid(&b[10..20]) },
        DELAY_RESP => Body::DelayResp { receive: get_ts(b), requester: get_pid(&b[10..20]) },
        PDELAY_RESP_FUP => Body::PdelayRespFollowUp { response_origin: get_ts(b), requester: get_pid(&b[10..20]) },
        ANNOUNCE => Body::Announce(AnnounceBody {
            origin: get_ts(b),
            utc_offset: i16::from_be_bytes([b[10], b[11]]),
            reserved: b[12],
            gm_priority1: b[13],
            gm_class: b[14],
            gm_accuracy: b[15],
            gm_variance: u16::from_be_bytes([b[16], b[17]]),
            gm_priority2: b[18],
            gm_identity: b[19..27].try_into().unwrap(),
            steps_removed: u16::from_be_bytes([b[27], b[28]]),
            time_source: b[29],
        }),
        SIGNALING => Body::Signaling { target: get_pid(b) },
        MANAGEMENT => Body::Management {
            target: get_pid(b),
            starting_hops: b[10],
            hops: b[11],
            action: b[12],
            reserved: b[13],
        },
        _ => unreachable!(),
    };
    let mut rest = &buf[34 + blen..length as usize];
    let mut tlvs = vec![];
    let mut trailing = vec![];
    while !rest.is_empty() {
        if rest.len() < 4 {
            if lenient_tlv {
                trailing = rest.to_vec();
                break;
            }
            return Err(DecodeErr::BadTlv);
        }
        let typ = u16::from_be_bytes([rest[0], rest[1]]);
        let l = u16::from_be_bytes([rest[2], rest[3]]) as usize;
        if rest.len() < 4 + l {
            if lenient_tlv {
                trailing = rest.to_vec();
                break;
            }
            return Err(DecodeErr::BadTlv);
        }
        tlvs.push(Tlv { typ, value: rest[4..4 + l].to_vec() });
        rest = &rest[4 + l..];
    }
    h.length = Some(length);
    Ok(Msg { hdr: h, body, tlvs, trailing })
}

/// Helper used by all harnesses: a header for a peer.
pub fn hdr(source: &Pid, seq: u16) -> Hdr {
    Hdr { source: source.clone(), seq, ..Default::default() }
}

pub fn pid(clock: [u8; 8], port: u16) -> Pid {
    Pid { clock, port }
}
