//! E2 — deviation-bounded stateless exploration (the CHESS iteration with
//! "departure from the default environment answer" in place of "preemption").
//! An execution is described by the non-default answers it takes: a sorted list
//! of (choice point, alternative).  All executions with at most k deviations are
//! enumerated: first the default one, then every single deviation, then every
//! pair, ...  Executions always run to their horizon.

use rayon::prelude::*;

/// All deviation sets of size <= k over `points` choice points, where point i has
/// `alts(i)` non-default alternatives (numbered 1..=alts(i)).
pub fn deviation_sets(points: usize, alts: &dyn Fn(usize) -> usize, k: usize) -> Vec<Vec<(usize, usize)>> {
    let mut out: Vec<Vec<(usize, usize)>> = vec![vec![]];
    let mut level: Vec<Vec<(usize, usize)>> = vec![vec![]];
    for _ in 0..k {
        let mut next = vec![];
        for d in &level {
            let start = d.last().map(|(p, _)| p + 1).unwrap_or(0);
            for p in start..points {
                for a in 1..=alts(p) {
                    let mut n = d.clone();
                    n.push((p, a));
                    next.push(n);
                }
            }
        }
        out.extend(next.iter().cloned());
        level = next;
    }
    out
}

#[derive(Default, Debug, Clone)]
pub struct DevStats {
    pub executions: u64,
    pub choice_points: usize,
    pub bound: usize,
    pub per_bound: Vec<u64>,
    pub distinct_end_states: usize,
}

/// Run `f` on every deviation set; `f` returns (violations, end-state fingerprint).  Violations are
/// reduced to one per signature while the executions run (an execution that repeats a known
/// finding returns a few kilobytes; millions of them must not be held at once).
pub fn explore(
    points: usize,
    alts: &(dyn Fn(usize) -> usize + Sync),
    k: usize,
    f: &(dyn Fn(&[(usize, usize)]) -> (Vec<crate::report::Violation>, u64) + Sync),
) -> (DevStats, Vec<crate::report::Violation>) {
    use std::collections::{BTreeMap, HashSet};
    let sets = deviation_sets(points, alts, k);
    let mut per_bound = vec![0u64; k + 1];
    for s in &sets {
        per_bound[s.len()] += 1;
    }
    type Part = (BTreeMap<String, crate::report::Violation>, HashSet<u64>);
    let (viols, ends): Part = sets
        .par_iter()
        .fold(
            || (BTreeMap::new(), HashSet::new()),
            |mut acc: Part, s| {
                let (v, e) = f(s);
                acc.1.insert(e);
                for x in v {
                    acc.0.entry(x.signature.clone()).or_insert(x);
                }
                acc
            },
        )
        .reduce(
            || (BTreeMap::new(), HashSet::new()),
            |mut a: Part, b: Part| {
                for (k, v) in b.0 {
                    a.0.entry(k).or_insert(v);
                }
                a.1.extend(b.1);
                a
            },
        );
    (DevStats { executions: sets.len() as u64, choice_points: points, bound: k, per_bound, distinct_end_states: ends.len() }, viols.into_values().collect())
}
