//! E2 — deviation-bounded stateless exploration (the CHESS iteration with
//! "departure from the default environment answer" in place of "preemption").
//! An execution is described by the non-default answers it takes: a sorted list
//! of (choice point, alternative).  All executions with at most k deviations are
//! enumerated: first the default one, then every single deviation, then every
//! pair, ...  Executions always run to their horizon.

use rayon::prelude::*;

/// All deviation sets of size <= k over `points` choice points, where point i has
/// `alts(i)` non-default alternatives (numbered 1..=alts(i)).
pub fn deviation_sets(points: usize, alts: &dyn Fn(usize) -> usize, k: usize) -> Vec<Vec<(usize, usize)>> {
    let mut out: Vec<Vec<(usize, usize)>> = vec![vec![]];
    let mut level: Vec<Vec<(usize, usize)>> = vec![vec![]];
    for _ in 0..k {
        let mut next = vec![];
        for d in &level {
            let start = d.last().map(|(p, _)| p + 1).unwrap_or(0);
            for p in start..points {
                for a in 1..=alts(p) {
                    let mut n = d.clone();
                    n.push((p, a));
                    next.push(n);
                }
            }
        }
        out.extend(next.iter().cloned());
        level = next;
    }
    out
}

#[derive(Default, Debug, Clone)]
pub struct DevStats {
    pub executions: u64,
    pub choice_points: usize,
    pub bound: usize,
    pub per_bound: Vec<u64>,
    pub distinct_end_states: usize,
}

/// Run `f` on every deviation set; `f` returns (violations, end-state fingerprint).
pub fn explore<V: Send>(
    points: usize,
    alts: &(dyn Fn(usize) -> usize + Sync),
    k: usize,
    f: &(dyn Fn(&[(usize, usize)]) -> (Vec<V>, u64) + Sync),
) -> (DevStats, Vec<V>) {
    let sets = deviation_sets(points, alts, k);
    let mut per_bound = vec![0u64; k + 1];
    for s in &sets {
        per_bound[s.len()] += 1;
    }
    let res: Vec<(Vec<V>, u64)> = sets.par_iter().map(|s| f(s)).collect();
    let mut ends = std::collections::HashSet::new();
    let mut viols = vec![];
    for (v, e) in res {
        ends.insert(e);
        viols.extend(v);
    }
    (DevStats { executions: sets.len() as u64, choice_points: points, bound: k, per_bound, distinct_end_states: ends.len() }, viols)
}
