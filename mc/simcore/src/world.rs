//! `World`: one real instance with 1-3 real ports, a host model (timers,
//! transmit-timestamp contexts, TLV forwarding glue) and a set of simulated
//! peers.  A world executes an event history on fresh objects and reports, for
//! every step, what the library did.  It is the transition system explored by E1
//! for C03(b), C06, C07, C08, C12, C14 and C17(a).

use std::collections::VecDeque;

use serde::{Deserialize, Serialize};
use statime::config::ClockQuality;
use statime::port::{ForwardedTLV, TimestampContext};
use statime::PtpInstance;

use crate::dbg::strip_packet_buffer;
use crate::harness::*;
use crate::refcodec::{self as rc, Body, Msg, Pid, Tlv, Ts};
use crate::bfs::{Outcome, System};
use crate::report::{catch, Caught, Violation};
use crate::scen::{state_name, Peer};

#[derive(Clone, Copy, Debug, PartialEq, Eq, Hash, Serialize, Deserialize, PartialOrd, Ord)]
pub enum Timer {
    Announce = 0,
    Sync = 1,
    Delay = 2,
    Receipt = 3,
    Filter = 4,
}
pub const TIMERS: [Timer; 5] = [Timer::Announce, Timer::Sync, Timer::Delay, Timer::Receipt, Timer::Filter];

#[derive(Clone, Debug, PartialEq, Eq, Hash, Serialize, Deserialize)]
pub enum Ev {
    /// fire a timer handler on a port
    T(usize, Timer),
    /// return the oldest pending transmit timestamp of a port
    TxTs(usize),
    /// lose the oldest pending transmit timestamp (host never reports it)
    DropTs(usize),
    Bmca,
    SlaveOnly(bool),
    /// set_clock_quality(index into cfg.qualities)
    Quality(usize),
    /// next Announce of peer k on port p
    Ann(usize, usize),
    /// the peer's previous Announce again (duplicate, same sequence id)
    AnnDup(usize, usize),
    /// Announce of peer k whose sequence id is one before its previous one (stale)
    AnnStale(usize, usize),
    /// Announce with stepsRemoved 255
    Ann255(usize, usize),
    /// Sync of peer k on port p (two_step)
    Sync(usize, usize, bool),
    /// duplicate of the peer's last Sync
    SyncDup(usize, usize, bool),
    /// Follow_Up for the peer's last Sync
    Fup(usize, usize),
    /// Follow_Up with the sequence id before the peer's last Sync
    FupOld(usize, usize),
    /// Delay_Resp from peer k: (port, peer, addressed to us, current request id)
    DelayResp(usize, usize, bool, bool),
    DelayReq(usize, usize),
    PdelayReq(usize, usize),
    /// Pdelay_Resp from peer k for our last request (port, peer, two_step, current id)
    PdelayResp(usize, usize, bool, bool),
    PdelayFup(usize, usize, bool),
    /// a literal frame (index into cfg.frames) on the (event?) interface
    Frame(usize, usize, bool),
    /// literal bytes (port, hex, event interface)
    Raw(usize, String, bool),
    /// literal bytes on the event interface with an explicit receive timestamp
    /// (decimal string of 2^-32 ns units)
    RawAt(usize, String, String),
    /// oldest pending transmit timestamp reported with an explicit value
    TxTsAt(usize, String),
    /// the clock's `now()` reading from here on (2^-32 ns units)
    ClockNow(String),
    /// index into `WorldSys::macros`: a fixed sequence of events explored as one transition
    Macro(usize),
    /// the host's observer reads every data set through the public getters, the current data set
    /// with each port's filter contribution (what statime-linux's observation socket serves)
    Observe,
}

#[derive(Clone, Debug)]
pub struct WorldCfg {
    pub node: NodeSpec,
    pub peers: Vec<Peer>,
    pub qualities: Vec<(u8, u8, u16)>,
    pub frames: Vec<Vec<u8>>,
    /// receive timestamp given with every event frame / transmit timestamp reported
    pub rx_ns: u64,
    pub tx_ns: u64,
    pub clock_now_ns: u64,
    /// put the measurement log into the canonical state
    pub log_in_key: bool,
    /// strict TLV provider (`<`) or lenient (`<=`)
    pub provider_strict: bool,
    /// use the daemon's real `statime_linux::tlvforwarder::TlvForwarder` (one root, one
    /// `duplicate()` per port) instead of the minimal queue providers
    pub provider_daemon: bool,
    /// clock fails every command
    pub clock_fails: bool,
    /// use the real Kalman filter (default configuration) behind the recording filter
    pub kalman: bool,
    /// peers with the same port identity are one sender with different contents: they share
    /// one Announce sequence counter
    pub share_seq_by_identity: bool,
}

impl Default for WorldCfg {
    fn default() -> Self {
        WorldCfg {
            node: NodeSpec::default(),
            peers: vec![Peer::gm(1, 1), Peer::gm(2, 250)],
            qualities: vec![(6, 0x21, 0x100), (255, 0xfe, 0xffff)],
            frames: vec![],
            rx_ns: 5_000_000_000,
            tx_ns: 5_000_000_500,
            clock_now_ns: 5_000_001_000,
            log_in_key: false,
            provider_strict: false,
            provider_daemon: false,
            clock_fails: false,
            kalman: false,
            share_seq_by_identity: false,
        }
    }
}

#[derive(Clone, Debug)]
pub struct ActInfo {
    pub kind: &'static str,
    pub frame: Option<Vec<u8>>,
    pub decoded: Option<Result<Msg, rc::DecodeErr>>,
    pub link_local: bool,
    pub duration: Option<core::time::Duration>,
    pub text: String,
}

pub type PS = statime::observability::port::PortState;

/// Everything observable about one step.
pub struct Step {
    pub index: usize,
    pub ev: Ev,
    /// port the event was applied to (None: instance-level)
    pub port: Option<usize>,
    pub before: Vec<PS>,
    pub after: Vec<PS>,
    /// actions per port (only BMCA yields actions on several ports)
    pub acts: Vec<(usize, Vec<ActInfo>)>,
    pub panic: Option<Caught>,
    pub clock_cmds: Vec<(u16, ClockCmd, bool)>,
    pub filter_calls: Vec<(usize, FilterCall)>,
    /// (nested acquisitions, max depth, acquisitions) during the step
    pub lock: (u64, u32, u64),
    pub poisoned: bool,
    /// slave-only setting before the step
    pub slave_only_before: bool,
}

pub enum Provider {
    Queue(QueueProvider),
    Daemon(statime_linux::tlvforwarder::TlvForwarder),
}
impl statime::port::ForwardedTLVProvider for Provider {
    fn next_if_smaller(&mut self, max_size: usize) -> Option<ForwardedTLV<'_>> {
        match self {
            Provider::Queue(q) => q.next_if_smaller(max_size),
            Provider::Daemon(d) => d.next_if_smaller(max_size),
        }
    }
}
impl std::fmt::Debug for Provider {
    fn fmt(&self, f: &mut std::fmt::Formatter<'_>) -> std::fmt::Result {
        match self {
            Provider::Queue(q) => write!(f, "{:?}", q.queue),
            // opaque: the oracle's own reference queue (in the monitor key) stands for it
            Provider::Daemon(_) => write!(f, "Daemon"),
        }
    }
}

pub struct Host {
    pub armed: [bool; 5],
    pub last_duration: [Option<core::time::Duration>; 5],
    pub pending: VecDeque<(TimestampContext, Vec<u8>)>,
    pub provider: Provider,
    pub last_delay_req_seq: Option<u16>,
    pub last_pdelay_req_seq: Option<u16>,
}

pub struct Run<'a> {
    pub cfg: &'a WorldCfg,
    pub node: Node<'a, RecFilter>,
    pub hosts: Vec<Host>,
    pub peers: Vec<Peer>,
    /// per (port, peer): last Sync seq sent
    pub last_sync: Vec<Vec<Option<u16>>>,
    pub logs: Vec<FilterLog>,
    log_seen: Vec<usize>,
    clock_seen: usize,
    pub steps_done: usize,
    pub dead: bool,
    pub root_forwarder: Option<statime_linux::tlvforwarder::TlvForwarder>,
}

fn act_info(a: &Act) -> ActInfo {
    let (frame, link_local) = match a {
        Act::SendEvent { data, link_local, .. } | Act::SendGeneral { data, link_local } => (Some(data.clone()), *link_local),
        _ => (None, false),
    };
    let duration = match a {
        Act::ResetAnnounce(d) | Act::ResetSync(d) | Act::ResetDelay(d) | Act::ResetReceipt(d) | Act::ResetFilter(d) => Some(*d),
        _ => None,
    };
    ActInfo {
        kind: a.kind(),
        decoded: frame.as_ref().map(|f| rc::decode(f)),
        frame,
        link_local,
        duration,
        text: match a {
            Act::Forward(t) => format!("{:?}", t),
            _ => String::new(),
        },
    }
}

impl<'a> Run<'a> {
    pub fn n_ports(&self) -> usize {
        self.node.ports.len()
    }
    pub fn states(&self) -> Vec<PS> {
        (0..self.n_ports()).map(|p| self.node.port_ref(p).port_ds().port_state).collect()
    }
    pub fn own_pid(&self, p: usize) -> Pid {
        crate::scen::own_pid(&self.node, p)
    }

    /// host-side handling of returned actions: arm timers, stash contexts,
    /// forward TLVs to the other ports' providers (as `main.rs` does)
    fn absorb(&mut self, p: usize, acts: Vec<Act>) -> Vec<ActInfo> {
        let mut infos = vec![];
        for mut a in acts {
            infos.push(act_info(&a));
            match &mut a {
                Act::SendEvent { ctx, data, .. } => {
                    if let Ok(m) = rc::decode(data) {
                        match m.body {
                            Body::DelayReq { .. } => self.hosts[p].last_delay_req_seq = Some(m.hdr.seq),
                            Body::PdelayReq { .. } => self.hosts[p].last_pdelay_req_seq = Some(m.hdr.seq),
                            _ => {}
                        }
                    }
                    if let Some(c) = ctx.take() {
                        self.hosts[p].pending.push_back((c, data.clone()));
                    }
                }
                Act::SendGeneral { .. } => {}
                Act::ResetAnnounce(d) => self.arm(p, Timer::Announce, *d),
                Act::ResetSync(d) => self.arm(p, Timer::Sync, *d),
                Act::ResetDelay(d) => self.arm(p, Timer::Delay, *d),
                Act::ResetReceipt(d) => self.arm(p, Timer::Receipt, *d),
                Act::ResetFilter(d) => self.arm(p, Timer::Filter, *d),
                Act::Forward(t) => {
                    // main.rs: `tlv_forwarder.forward(tlv.into_owned())` reaches the receiver of
                    // every port's duplicate, the originating port's own one included
                    let t: ForwardedTLV<'static> = t.clone();
                    if let Some(root) = &self.root_forwarder {
                        root.forward(t);
                    } else {
                        for q in 0..self.hosts.len() {
                            if let Provider::Queue(pq) = &mut self.hosts[q].provider {
                                pq.queue.push_back(t.clone());
                            }
                        }
                    }
                }
            }
        }
        infos
    }
    fn arm(&mut self, p: usize, t: Timer, d: core::time::Duration) {
        self.hosts[p].armed[t as usize] = true;
        self.hosts[p].last_duration[t as usize] = Some(d);
    }

    fn frame_for(&mut self, ev: &Ev) -> Option<(usize, Vec<u8>, bool)> {
        // returns (port, bytes, on event interface)
        Some(match *ev {
            Ev::Ann(p, k) => {
                let f = self.peers[k].announce();
                if self.cfg.share_seq_by_identity {
                    let (pid, next) = (self.peers[k].pid.clone(), self.peers[k].announce_seq);
                    for q in self.peers.iter_mut().filter(|q| q.pid == pid) {
                        q.announce_seq = next;
                    }
                }
                (p, f, false)
            }
            Ev::AnnDup(p, k) => {
                let s = self.peers[k].announce_seq.wrapping_sub(1);
                (p, rc::encode(&self.peers[k].announce_msg(s)), false)
            }
            Ev::AnnStale(p, k) => {
                let s = self.peers[k].announce_seq.wrapping_sub(2);
                (p, rc::encode(&self.peers[k].announce_msg(s)), false)
            }
            Ev::Ann255(p, k) => {
                let s = self.peers[k].announce_seq;
                self.peers[k].announce_seq = s.wrapping_add(1);
                let mut m = self.peers[k].announce_msg(s);
                if let Body::Announce(a) = &mut m.body {
                    a.steps_removed = 255;
                }
                (p, rc::encode(&m), false)
            }
            Ev::Sync(p, k, two) => {
                let s = self.peers[k].sync_seq;
                self.peers[k].sync_seq = s.wrapping_add(1);
                self.last_sync[p][k] = Some(s);
                (p, self.peers[k].sync(s, two, Ts::from_ns(self.cfg.rx_ns as u128 - 1000), 0), true)
            }
            Ev::SyncDup(p, k, two) => {
                let s = self.last_sync[p][k].unwrap_or(0);
                (p, self.peers[k].sync(s, two, Ts::from_ns(self.cfg.rx_ns as u128 - 1000), 0), true)
            }
            Ev::Fup(p, k) => {
                let s = self.last_sync[p][k].unwrap_or(0);
                (p, self.peers[k].follow_up(s, Ts::from_ns(self.cfg.rx_ns as u128 - 1000), 0), false)
            }
            Ev::FupOld(p, k) => {
                let s = self.last_sync[p][k].unwrap_or(0).wrapping_sub(1);
                (p, self.peers[k].follow_up(s, Ts::from_ns(self.cfg.rx_ns as u128 - 1000), 0), false)
            }
            Ev::DelayResp(p, k, ours, current) => {
                let mut s = self.hosts[p].last_delay_req_seq.unwrap_or(0);
                if !current {
                    s = s.wrapping_sub(1);
                }
                let mut req = self.own_pid(p);
                if !ours {
                    req.port = req.port.wrapping_add(7);
                }
                (p, self.peers[k].delay_resp(s, Ts::from_ns(self.cfg.tx_ns as u128 + 800), 0, &req), false)
            }
            Ev::DelayReq(p, k) => (p, self.peers[k].delay_req(77, 0), true),
            Ev::PdelayReq(p, k) => (p, self.peers[k].pdelay_req(88, 0), true),
            Ev::PdelayResp(p, k, two, current) => {
                let mut s = self.hosts[p].last_pdelay_req_seq.unwrap_or(0);
                if !current {
                    s = s.wrapping_sub(1);
                }
                let req = self.own_pid(p);
                (p, self.peers[k].pdelay_resp(s, two, Ts::from_ns(self.cfg.tx_ns as u128 + 300), 0, &req), true)
            }
            Ev::PdelayFup(p, k, current) => {
                let mut s = self.hosts[p].last_pdelay_req_seq.unwrap_or(0);
                if !current {
                    s = s.wrapping_sub(1);
                }
                let req = self.own_pid(p);
                (p, self.peers[k].pdelay_resp_fup(s, Ts::from_ns(self.cfg.tx_ns as u128 + 400), 0, &req), false)
            }
            Ev::Frame(p, i, event) => (p, self.cfg.frames[i].clone(), event),
            Ev::Raw(p, ref h, event) => (p, unhex(h), event),
            _ => return None,
        })
    }

    /// is `ev` something an obedient host could do now?
    pub fn enabled_obedient(&self, ev: &Ev) -> bool {
        match *ev {
            Ev::T(p, t) => self.hosts[p].armed[t as usize],
            Ev::TxTs(p) | Ev::DropTs(p) | Ev::TxTsAt(p, _) => !self.hosts[p].pending.is_empty(),
            _ => true,
        }
    }

    pub fn apply(&mut self, ev: &Ev) -> Step {
        let before = self.states();
        let slave_only_before = self.node.inst.default_ds().slave_only;
        lock_stats_reset();
        let index = self.steps_done;
        self.steps_done += 1;
        let mut port = None;
        let mut acts: Vec<(usize, Vec<Act>)> = vec![];
        let res = {
            let me = &mut *self;
            let ev2 = ev.clone();
            let acts_ref = &mut acts;
            let port_ref = &mut port;
            catch(move || match ev2 {
                Ev::T(p, t) => {
                    *port_ref = Some(p);
                    me.hosts[p].armed[t as usize] = false;
                    let a = match t {
                        Timer::Announce => {
                            let host = &mut me.hosts[p];
                            let port = match &mut me.node.ports[p] {
                                Slot::Run(x) => x,
                                _ => panic!("harness: port not running"),
                            };
                            collect(port.handle_announce_timer(&mut host.provider))
                        }
                        Timer::Sync => collect(me.node.port(p).handle_sync_timer()),
                        Timer::Delay => collect(me.node.port(p).handle_delay_request_timer()),
                        Timer::Receipt => collect(me.node.port(p).handle_announce_receipt_timer()),
                        Timer::Filter => collect(me.node.port(p).handle_filter_update_timer()),
                    };
                    acts_ref.push((p, a));
                }
                Ev::TxTs(p) => {
                    *port_ref = Some(p);
                    if let Some((ctx, _)) = me.hosts[p].pending.pop_front() {
                        SimClock::saw(&me.node.clock, time_ns(me.cfg.tx_ns));
                        let a = collect(me.node.port(p).handle_send_timestamp(ctx, time_ns(me.cfg.tx_ns)));
                        acts_ref.push((p, a));
                    }
                }
                Ev::TxTsAt(p, ref bits) => {
                    *port_ref = Some(p);
                    if let Some((ctx, _)) = me.hosts[p].pending.pop_front() {
                        let t = time_bits(bits.parse::<u128>().expect("harness: TxTsAt bits"));
                        SimClock::saw(&me.node.clock, t);
                        let a = collect(me.node.port(p).handle_send_timestamp(ctx, t));
                        acts_ref.push((p, a));
                    }
                }
                Ev::RawAt(p, ref h, ref bits) => {
                    *port_ref = Some(p);
                    let t = time_bits(bits.parse::<u128>().expect("harness: RawAt bits"));
                    SimClock::saw(&me.node.clock, t);
                    let bytes = unhex(h);
                    let a = collect(me.node.port(p).handle_event_receive(&bytes, t));
                    acts_ref.push((p, a));
                }
                Ev::ClockNow(ref bits) => {
                    me.node.clock.borrow_mut().now = time_bits(bits.parse::<u128>().expect("harness: ClockNow bits"));
                }
                Ev::DropTs(p) => {
                    *port_ref = Some(p);
                    me.hosts[p].pending.pop_front();
                }
                Ev::Bmca => {
                    let all = me.node.bmca();
                    for (p, a) in all.into_iter().enumerate() {
                        acts_ref.push((p, a));
                    }
                }
                Ev::SlaveOnly(b) => me.node.inst.set_slave_only(b),
                Ev::Observe => {
                    let inst = me.node.inst;
                    let _ = (inst.default_ds(), inst.parent_ds(), inst.time_properties_ds(), inst.path_trace_ds());
                    let _ = inst.current_ds(None);
                    for p in 0..me.node.ports.len() {
                        let c = me.node.port_ref(p).port_current_ds_contribution();
                        let _ = inst.current_ds(c);
                        let _ = me.node.port_ref(p).port_ds();
                    }
                }
                Ev::Quality(i) => {
                    let (c, a, v) = me.cfg.qualities[i];
                    me.node.inst.set_clock_quality(ClockQuality {
                        clock_class: c,
                        clock_accuracy: accuracy_from_octet(a),
                        offset_scaled_log_variance: v,
                    });
                }
                Ev::Macro(_) => panic!("harness: unexpanded macro event"),
                ref other => {
                    let (p, bytes, on_event) = me.frame_for(other).expect("harness: frame event");
                    *port_ref = Some(p);
                    let a = if on_event {
                        SimClock::saw(&me.node.clock, time_ns(me.cfg.rx_ns));
                        collect(me.node.port(p).handle_event_receive(&bytes, time_ns(me.cfg.rx_ns)))
                    } else {
                        collect(me.node.port(p).handle_general_receive(&bytes))
                    };
                    acts_ref.push((p, a));
                }
            })
        };
        let lock = lock_stats();
        let panic = res.err();
        let mut infos = vec![];
        for (p, a) in acts {
            let i = self.absorb(p, a);
            infos.push((p, i));
        }
        // ports may be gone after a panic in bmca
        let alive = self.node.ports.iter().all(|s| matches!(s, Slot::Run(_)));
        let after = if alive { self.states() } else { before.clone() };
        let mut filter_calls = vec![];
        for (p, l) in self.logs.iter().enumerate() {
            let l = l.borrow();
            for c in &l[self.log_seen[p]..] {
                filter_calls.push((p, c.clone()));
            }
            self.log_seen[p] = l.len();
        }
        let clock_cmds = {
            let c = self.node.clock.borrow();
            let v = c.log[self.clock_seen..].to_vec();
            self.clock_seen = c.log.len();
            v
        };
        Step {
            index,
            ev: ev.clone(),
            port,
            before,
            after,
            acts: infos,
            panic,
            clock_cmds,
            filter_calls,
            lock,
            poisoned: lock_poisoned(),
            slave_only_before,
        }
    }

    /// canonical state: Debug text of every port (which includes the instance
    /// state behind the lock), minus dead scratch buffers, plus host and peer state
    pub fn key(&self) -> String {
        let mut s = String::new();
        for (i, slot) in self.node.ports.iter().enumerate() {
            match slot {
                Slot::Run(p) => s.push_str(&strip_packet_buffer(&format!("{:?}", p))),
                _ => s.push_str("GONE"),
            }
            let h = &self.hosts[i];
            s.push_str(&format!(
                "|armed{:?}|pend{:?}|q{:?}|dr{:?}|pdr{:?}\n",
                h.armed,
                h.pending.iter().map(|(c, _)| format!("{:?}", c)).collect::<Vec<_>>(),
                h.provider,
                h.last_delay_req_seq,
                h.last_pdelay_req_seq
            ));
        }
        for p in &self.peers {
            s.push_str(&format!("peer{:?}/{:?};", p.announce_seq, p.sync_seq));
        }
        s.push_str(&format!("{:?}", self.last_sync));
        s
    }

    pub fn observable(&self) -> String {
        let st: Vec<&str> = self.states().into_iter().map(state_name).collect();
        format!("{:?}", st)
    }
}

pub trait Observer {
    fn pre(&mut self, _run: &mut Run<'_>, _index: usize, _ev: &Ev) {}
    fn post(&mut self, _run: &mut Run<'_>, _step: &Step) {}
    /// after the last event (not called when a step panicked)
    fn end(&mut self, _run: &mut Run<'_>) {}
}

impl WorldCfg {
    /// Execute `hist` on fresh real objects; `obs` sees every step.
    pub fn exec<R>(&self, hist: &[Ev], obs: &mut dyn Observer, finish: impl FnOnce(&mut Run<'_>) -> R) -> R {
        lock_poison_reset();
        let inst = PtpInstance::<RecFilter, TrackLock>::new(self.node.instance_config(), self.node.time_properties());
        let logs: Vec<FilterLog> = (0..self.node.ports.len()).map(|_| Default::default()).collect();
        let l2 = logs.clone();
        let in_key = self.log_in_key;
        let kal = if self.kalman { Some(statime::filters::KalmanConfiguration::default()) } else { None };
        let node = Node::new(&inst, &self.node, move |i| RecCfg { log: l2[i].clone(), in_key, kalman: kal });
        node.clock.borrow_mut().now = time_ns(self.clock_now_ns);
        node.clock.borrow_mut().fail_all = self.clock_fails;
        let n = node.ports.len();
        let root_forwarder = if self.provider_daemon { Some(statime_linux::tlvforwarder::TlvForwarder::new()) } else { None };
        let mut run = Run {
            cfg: self,
            hosts: (0..n)
                .map(|_| Host {
                    armed: [false; 5],
                    last_duration: [None; 5],
                    pending: Default::default(),
                    provider: match &root_forwarder {
                        Some(r) => Provider::Daemon(r.duplicate()),
                        None => Provider::Queue(QueueProvider { queue: Default::default(), strict: self.provider_strict }),
                    },
                    last_delay_req_seq: None,
                    last_pdelay_req_seq: None,
                })
                .collect(),
            peers: self.peers.clone(),
            last_sync: vec![vec![None; self.peers.len()]; n],
            log_seen: vec![0; n],
            clock_seen: 0,
            logs,
            node,
            steps_done: 0,
            dead: false,
            root_forwarder,
        };
        // the actions returned by end_bmca at creation arm the first timers
        let init = std::mem::take(&mut run.node.initial_actions);
        for (p, a) in init.into_iter().enumerate() {
            let _ = run.absorb(p, a);
        }
        for p in 0..n {
            run.log_seen[p] = run.logs[p].borrow().len();
        }
        for (i, ev) in hist.iter().enumerate() {
            obs.pre(&mut run, i, ev);
            let step = run.apply(ev);
            let dead = step.panic.is_some();
            obs.post(&mut run, &step);
            if dead {
                run.dead = true;
                break;
            }
        }
        if !run.dead {
            obs.end(&mut run);
        }
        finish(&mut run)
    }
}

/// An oracle riding on a world exploration.  `report` is `Some` only for the
/// step under judgement (the last one of the history being expanded).
pub trait Monitor: Sync {
    type St: Default;
    fn pre(&self, _st: &mut Self::St, _run: &mut Run<'_>, _ev: &Ev, _judged: bool) {}
    fn post(&self, st: &mut Self::St, run: &mut Run<'_>, step: &Step, report: Option<&mut Vec<Violation>>);
    /// part of the oracle's own state that future verdicts depend on (goes into the state key)
    fn key(&self, _st: &Self::St) -> String {
        String::new()
    }
    /// replace the canonical state text (e.g. to translate sequence ids)
    fn canon(&self, _run: &Run<'_>, key: String) -> String {
        key
    }
    /// called once after the history (and after the state key was taken): may keep driving
    /// the run, e.g. with a deterministic continuation, and report what it finds
    fn finale(&self, _st: &mut Self::St, _run: &mut Run<'_>, _out: &mut Vec<Violation>) {}
}

/// A world + seed history + alphabet + monitor as an E1 transition system.
pub struct WorldSys<'m, M: Monitor> {
    pub property: &'static str,
    pub name: String,
    pub cfg: WorldCfg,
    pub seed: Vec<Ev>,
    pub alphabet: Vec<Ev>,
    /// obedient host: timers fire only when armed, timestamps only when pending
    pub obedient: bool,
    pub monitor: &'m M,
    /// expansions of `Ev::Macro(i)`
    pub macros: Vec<Vec<Ev>>,
}

struct Bridge<'a, 'm, M: Monitor> {
    sys: &'a WorldSys<'m, M>,
    st: M::St,
    /// steps with index >= judged are under judgement
    judged: usize,
    out: Vec<Violation>,
    /// (key, observable, next events) taken after the history, before the finale
    result: Option<(String, String, Vec<Ev>)>,
}
impl<M: Monitor> Observer for Bridge<'_, '_, M> {
    fn pre(&mut self, run: &mut Run<'_>, index: usize, ev: &Ev) {
        self.sys.monitor.pre(&mut self.st, run, ev, index >= self.judged);
    }
    fn post(&mut self, run: &mut Run<'_>, step: &Step) {
        let judged = step.index >= self.judged;
        self.sys.monitor.post(&mut self.st, run, step, if judged { Some(&mut self.out) } else { None });
    }
    fn end(&mut self, run: &mut Run<'_>) {
        let next: Vec<Ev> = self.sys.alphabet.iter().filter(|e| !self.sys.obedient || run.enabled_obedient(e)).cloned().collect();
        let key = format!("{}#{}", self.sys.monitor.canon(run, run.key()), self.sys.monitor.key(&self.st));
        self.result = Some((key, run.observable(), next));
        if self.judged != usize::MAX {
            self.sys.monitor.finale(&mut self.st, run, &mut self.out);
        }
    }
}

impl<M: Monitor> WorldSys<'_, M> {
    pub fn replay_json(&self, hist: &[Ev]) -> serde_json::Value {
        serde_json::json!({"world": self.name, "seed": self.seed, "hist": hist})
    }
    /// run a history with every step after the seed under judgement (E2 executions)
    pub fn run_all_judged(&self, hist: &[Ev]) -> Outcome<Ev> {
        self.run_inner(hist, true)
    }
    /// run a history and return (violations of its last step, canonical key)
    pub fn run_full(&self, hist: &[Ev]) -> Outcome<Ev> {
        self.run_inner(hist, false)
    }
    fn run_inner(&self, hist: &[Ev], judge_all: bool) -> Outcome<Ev> {
        let mut full = self.seed.clone();
        let mut judged = usize::MAX;
        if judge_all {
            judged = full.len();
        }
        for (i, e) in hist.iter().enumerate() {
            if i + 1 == hist.len() && !judge_all {
                judged = full.len();
            }
            match e {
                Ev::Macro(m) => full.extend_from_slice(&self.macros[*m]),
                o => full.push(o.clone()),
            }
        }
        let mut b = Bridge { sys: self, st: Default::default(), judged, out: vec![], result: None };
        self.cfg.exec(&full, &mut b, |_| ());
        let (key, observable, next, dead) = match b.result.take() {
            Some((k, o, n)) => (k, o, n, false),
            None => (String::new(), "panicked".to_string(), vec![], true),
        };
        let replay = self.replay_json(hist);
        let mut violations = b.out;
        for v in &mut violations {
            v.replay = replay.clone();
            v.message = format!("{} [world {} after seed {:?} history {:?}]", v.message, self.name, self.seed, hist);
        }
        Outcome { key, observable, violations, next, dead }
    }
}

impl<M: Monitor> System for WorldSys<'_, M> {
    type Ev = Ev;
    fn run(&self, hist: &[Ev]) -> Outcome<Ev> {
        self.run_full(hist)
    }
}

pub fn tlv(typ: u16, len: usize, fill: u8) -> Tlv {
    Tlv { typ, value: vec![fill; len] }
}

// ---------------------------------------------------------------------------
// helpers shared by the world-based checks
// ---------------------------------------------------------------------------

use crate::bfs::{explore, Limits, Stats};
use crate::report::Reporter;

/// Explore several world systems and put the summed E1 counters into `rep`.
pub fn explore_all<M: Monitor>(rep: &mut Reporter, systems: &[WorldSys<'_, M>], depth_of: impl Fn(&WorldSys<'_, M>) -> usize, seconds_each: f64) {
    let mut total_states = 0u64;
    let mut total_trans = 0u64;
    let mut per = vec![];
    let mut samples = vec![];
    let mut all_closed_or_depth = true;
    for sys in systems {
        let lim = Limits { max_depth: depth_of(sys), max_seconds: seconds_each, max_states: 4_000_000 };
        let (st, viols): (Stats, _) = explore(sys, &lim);
        total_states += st.states;
        total_trans += st.transitions;
        if st.capped.is_some() {
            all_closed_or_depth = false;
            rep.assume(format!("world {}: {}", sys.name, st.capped.clone().unwrap()));
        }
        let mut j = st.to_json();
        j["world"] = serde_json::json!(sys.name);
        j["alphabet_size"] = serde_json::json!(sys.alphabet.len());
        j["seed_len"] = serde_json::json!(sys.seed.len());
        j["depth_bound"] = serde_json::json!(lim.max_depth);
        per.push(j);
        for h in st.sample_histories.iter().take(2) {
            samples.push(serde_json::json!({"world": sys.name, "seed": format!("{:?}", sys.seed), "history": h}));
        }
        rep.violations(viols);
    }
    rep.cover("states", serde_json::json!(total_states));
    rep.cover("transitions", serde_json::json!(total_trans));
    // every transition is one execution of the real handlers on fresh real objects
    rep.cover("traces_validated_against_impl", serde_json::json!(total_trans));
    rep.cover("worlds", serde_json::json!(per));
    rep.cover("samples", serde_json::json!(samples));
    rep.cover("exhaustive", serde_json::json!(all_closed_or_depth));
    rep.assume("states are identified by a 128-bit hash of the canonical Debug text (collisions assumed absent)");
    rep.assume("the model is the implementation: every transition calls the real Port/PtpInstance handlers; the environment (host timers, peers, clock, rng, TLV provider) is harness code written to the documented host contract");
}

/// Explore many small worlds (a configuration sweep) to one depth, worlds in parallel; the counters
/// are added to the totals of `explore_all` and summarised under `coverage[tag]`.
pub fn explore_more<M: Monitor>(rep: &mut Reporter, tag: &str, systems: &[WorldSys<'_, M>], depth: usize, seconds_each: f64) {
    use rayon::prelude::*;
    let results: Vec<(Stats, Vec<crate::report::Violation>)> = systems.par_iter().map(|sys| explore(sys, &Limits { max_depth: depth, max_seconds: seconds_each, max_states: 1_000_000 })).collect();
    let mut states = 0u64;
    let mut trans = 0u64;
    let mut capped = vec![];
    let mut outcomes = 0usize;
    for (sys, (st, viols)) in systems.iter().zip(results) {
        states += st.states;
        trans += st.transitions;
        outcomes = outcomes.max(st.outcomes);
        if let Some(c) = &st.capped {
            capped.push(format!("{}: {}", sys.name, c));
        }
        rep.violations(viols);
    }
    rep.cover_add("states", states);
    rep.cover_add("transitions", trans);
    rep.cover_add("traces_validated_against_impl", trans);
    rep.cover(
        tag,
        serde_json::json!({"worlds": systems.len(), "depth_bound": depth, "states": states, "transitions": trans, "max_distinct_outcomes_in_a_world": outcomes, "capped": capped,
            "first_worlds": systems.iter().take(6).map(|s| s.name.clone()).collect::<Vec<_>>()}),
    );
    if !capped.is_empty() {
        rep.cover("exhaustive", serde_json::json!(false));
        rep.assume(format!("{tag}: {} world(s) hit a cap: {}", capped.len(), capped.join("; ")));
    }
}

/// alphabet builder
pub struct Alpha(pub Vec<Ev>);
impl Alpha {
    pub fn new() -> Self {
        Alpha(vec![])
    }
    pub fn add(mut self, e: Ev) -> Self {
        if !self.0.contains(&e) {
            self.0.push(e);
        }
        self
    }
    pub fn timers(mut self, p: usize, ts: &[Timer]) -> Self {
        for t in ts {
            self = self.add(Ev::T(p, *t));
        }
        self
    }
    pub fn all(mut self, evs: &[Ev]) -> Self {
        for e in evs {
            self = self.add(e.clone());
        }
        self
    }
}

pub fn find_world<'a, 'm, M: Monitor>(systems: &'a [WorldSys<'m, M>], replay: &serde_json::Value) -> (&'a WorldSys<'m, M>, Vec<Ev>) {
    let name = replay["world"].as_str().unwrap_or("");
    let sys = systems.iter().find(|s| s.name == name).unwrap_or_else(|| {
        eprintln!("replay: unknown world {name}");
        std::process::exit(2)
    });
    let hist: Vec<Ev> = serde_json::from_value(replay["hist"].clone()).expect("replay: hist");
    (sys, hist)
}

/// replay one recorded history: print every step, then the verdict
pub fn replay_world<M: Monitor>(systems: &[WorldSys<'_, M>], replay: &serde_json::Value) {
    let (sys, hist) = find_world(systems, replay);
    struct P;
    impl Observer for P {
        fn post(&mut self, _run: &mut Run<'_>, s: &Step) {
            println!(
                "step {:>2} {:?}: {:?} -> {:?}; actions {:?}; clock {:?}; filter {:?}{}",
                s.index,
                s.ev,
                s.before.iter().map(|x| state_name(*x)).collect::<Vec<_>>(),
                s.after.iter().map(|x| state_name(*x)).collect::<Vec<_>>(),
                s.acts.iter().map(|(p, a)| (p, a.iter().map(|i| i.kind).collect::<Vec<_>>())).collect::<Vec<_>>(),
                s.clock_cmds,
                s.filter_calls.len(),
                s.panic.as_ref().map(|p| format!("; PANIC {} at {}", p.message, p.location)).unwrap_or_default()
            );
        }
    }
    let mut full = sys.seed.clone();
    for e in &hist {
        match e {
            Ev::Macro(m) => full.extend_from_slice(&sys.macros[*m]),
            o => full.push(o.clone()),
        }
    }
    sys.cfg.exec(&full, &mut P, |_| ());
    let o = sys.run_full(&hist);
    if o.violations.is_empty() {
        println!("no violation on replay");
    }
    for v in o.violations {
        println!("VIOLATION {} :: {}", v.signature, v.message);
    }
}
