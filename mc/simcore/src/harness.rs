//! Environment models: the lock, rng, clock, filter and host that close the
//! sans-IO library into an executable system (DESIGN 2.2, 3).

use std::cell::{Cell, RefCell};
use std::fmt;
use std::rc::Rc;

use rand::RngCore;
use statime::config::{
    AcceptableMasterList, ClockIdentity, ClockQuality, DelayMechanism, InstanceConfig, PortConfig,
    PtpMinorVersion, SdoId, TimePropertiesDS, TimeSource,
};
use statime::filters::{Filter, FilterEstimate, FilterUpdate};
use statime::port::{
    ForwardedTLV, ForwardedTLVProvider, InBmca, Measurement, Port, PortAction, PortActionIterator, Running,
    TimestampContext,
};
use statime::time::{Duration, Interval, Time};
use statime::{Clock, PtpInstance, PtpInstanceState, PtpInstanceStateMutex};

// ---------------------------------------------------------------------------
// lock
// ---------------------------------------------------------------------------

thread_local! {
    /// (nested acquisitions seen, max depth seen, acquisitions) on this thread since last reset
    static LOCK_STATS: Cell<(u64, u32, u64)> = const { Cell::new((0, 0, 0)) };
    static LOCK_DEPTH: Cell<u32> = const { Cell::new(0) };
    static LOCK_POISONED: Cell<bool> = const { Cell::new(false) };
}

/// did a panic unwind through a held write lock on this thread since the last reset?
pub fn lock_poisoned() -> bool {
    LOCK_POISONED.with(|p| p.get())
}
pub fn lock_poison_reset() {
    LOCK_POISONED.with(|p| p.set(false));
}

pub fn lock_stats_reset() {
    LOCK_STATS.with(|s| s.set((0, 0, 0)));
    LOCK_DEPTH.with(|d| d.set(0));
}
/// (nested acquisitions, max depth, acquisitions)
pub fn lock_stats() -> (u64, u32, u64) {
    LOCK_STATS.with(|s| s.get())
}

/// `PtpInstanceStateMutex` that behaves like a non-reentrant blocking lock would
/// have to: it records every acquisition made while another one is still held
/// by the same thread (which deadlocks `std::sync::RwLock` as soon as a writer
/// is queued, and panics `RefCell` when one side is a write).
pub struct TrackLock {
    cell: RefCell<PtpInstanceState>,
    poisoned: Cell<bool>,
}

struct DepthGuard<'a>(&'a TrackLock, bool);
impl<'a> DepthGuard<'a> {
    fn enter(l: &'a TrackLock, write: bool) -> Self {
        let d = LOCK_DEPTH.with(|d| {
            d.set(d.get() + 1);
            d.get()
        });
        LOCK_STATS.with(|s| {
            let (mut n, mut m, mut a) = s.get();
            a += 1;
            if d > 1 {
                n += 1;
            }
            if d > m {
                m = d;
            }
            s.set((n, m, a));
        });
        DepthGuard(l, write)
    }
}
impl Drop for DepthGuard<'_> {
    fn drop(&mut self) {
        LOCK_DEPTH.with(|d| d.set(d.get().saturating_sub(1)));
        if self.1 && std::thread::panicking() {
            self.0.poisoned.set(true);
            LOCK_POISONED.with(|p| p.set(true));
        }
    }
}

impl TrackLock {
    pub fn is_poisoned(&self) -> bool {
        self.poisoned.get()
    }
}

impl PtpInstanceStateMutex for TrackLock {
    fn new(state: PtpInstanceState) -> Self {
        TrackLock { cell: RefCell::new(state), poisoned: Cell::new(false) }
    }
    fn with_ref<R, F: FnOnce(&PtpInstanceState) -> R>(&self, f: F) -> R {
        let _g = DepthGuard::enter(self, false);
        match self.cell.try_borrow() {
            Ok(b) => f(&b),
            Err(_) => panic!("TrackLock: read requested while write held"),
        }
    }
    fn with_mut<R, F: FnOnce(&mut PtpInstanceState) -> R>(&self, f: F) -> R {
        let _g = DepthGuard::enter(self, true);
        match self.cell.try_borrow_mut() {
            Ok(mut b) => f(&mut b),
            Err(_) => panic!("TrackLock: write requested while lock held"),
        }
    }
}

impl fmt::Debug for TrackLock {
    fn fmt(&self, f: &mut fmt::Formatter<'_>) -> fmt::Result {
        match self.cell.try_borrow() {
            Ok(b) => write!(f, "{:?}", &*b),
            Err(_) => write!(f, "LOCKED"),
        }
    }
}

// ---------------------------------------------------------------------------
// rng
// ---------------------------------------------------------------------------

/// Rng whose every `Open01` sample is a fraction chosen by the harness.
/// `script` is consumed first (one entry per sample), then `default` forever.
#[derive(Clone)]
pub struct ChoiceRng {
    pub default: f64,
    pub script: Rc<RefCell<std::collections::VecDeque<f64>>>,
    pub draws: Rc<Cell<u64>>,
    /// when non-empty, the default answer cycles through these fractions
    pub cycle: Rc<Vec<f64>>,
}

impl ChoiceRng {
    pub fn constant(f: f64) -> Self {
        ChoiceRng { default: f, script: Default::default(), draws: Default::default(), cycle: Default::default() }
    }
    pub fn cycling(c: Vec<f64>) -> Self {
        ChoiceRng { default: 0.5, script: Default::default(), draws: Default::default(), cycle: Rc::new(c) }
    }
    pub fn set_next(&self, f: f64) {
        self.script.borrow_mut().push_back(f);
    }
}

impl fmt::Debug for ChoiceRng {
    fn fmt(&self, f: &mut fmt::Formatter<'_>) -> fmt::Result {
        // no evolving state of its own: what it returns is decided by the harness
        write!(f, "ChoiceRng")
    }
}

impl RngCore for ChoiceRng {
    fn next_u32(&mut self) -> u32 {
        (self.next_u64() >> 32) as u32
    }
    fn next_u64(&mut self) -> u64 {
        self.draws.set(self.draws.get() + 1);
        let dflt = if self.cycle.is_empty() { self.default } else { self.cycle[((self.draws.get() - 1) % self.cycle.len() as u64) as usize] };
        let frac = self.script.borrow_mut().pop_front().unwrap_or(dflt);
        // rand 0.8 Open01 for f64: (next_u64() >> 12) as the 52 mantissa bits
        let m = (frac.clamp(0.0, 0.999_999_999) * (1u64 << 52) as f64) as u64;
        m << 12
    }
    fn fill_bytes(&mut self, dest: &mut [u8]) {
        for b in dest {
            *b = 0x80;
        }
    }
    fn try_fill_bytes(&mut self, dest: &mut [u8]) -> Result<(), rand::Error> {
        self.fill_bytes(dest);
        Ok(())
    }
}

// ---------------------------------------------------------------------------
// clock
// ---------------------------------------------------------------------------

#[derive(Clone, Debug, PartialEq)]
pub enum ClockCmd {
    SetFreq(f64),
    Step(Duration),
    SetProps,
}

/// free-running oscillator with a frequency error, steered by the clock commands
#[derive(Clone, Debug)]
pub struct Osc {
    /// oscillator error in ppm (the thing the servo has to find)
    pub err_ppm: f64,
    /// frequency adjustment currently programmed by the servo
    pub adj_ppm: f64,
    /// anchor: at true time `base_true_ns` the clock read `base_local` (2^-32 ns)
    pub base_true_ns: u64,
    pub base_local: i128,
    pub true_ns: u64,
}

impl Osc {
    pub fn new(offset_ns: i64, err_ppm: f64) -> Osc {
        Osc { err_ppm, adj_ppm: 0.0, base_true_ns: 0, base_local: (offset_ns as i128) << 32, true_ns: 0 }
    }
    /// local reading (2^-32 ns) at true time `t_ns`
    pub fn local(&self, t_ns: u64) -> i128 {
        let e = (t_ns - self.base_true_ns) as i128;
        // elapsed * (1 + (err + adj) * 1e-6), in 2^-32 ns; the f64 product is exact enough
        // because the anchor moves with every adjustment
        let extra = (e as f64) * (self.err_ppm + self.adj_ppm) * 1e-6 * 4294967296.0;
        self.base_local + (e << 32) + extra.round() as i128
    }
    fn reanchor(&mut self) {
        let l = self.local(self.true_ns);
        self.base_true_ns = self.true_ns;
        self.base_local = l;
    }
}

/// the read-only clock underneath an `OverlayClock`: the raw, never adjusted oscillator
pub struct RawUnder(pub Rc<std::cell::Cell<Time>>);
impl Clock for RawUnder {
    type Error = ClockFail;
    fn now(&self) -> Time {
        self.0.get()
    }
    fn step_clock(&mut self, _o: Duration) -> Result<Time, ClockFail> {
        panic!("harness: the overlay clock must not adjust the underlying clock")
    }
    fn set_frequency(&mut self, _p: f64) -> Result<Time, ClockFail> {
        panic!("harness: the overlay clock must not adjust the underlying clock")
    }
    fn set_properties(&mut self, _t: &TimePropertiesDS) -> Result<(), ClockFail> {
        Ok(())
    }
}

#[derive(Default)]
pub struct ClockCore {
    /// with an oscillator: the node's clock is statime's `OverlayClock` over the raw oscillator
    /// (the daemon's virtual-system-clock set-up) instead of a directly adjustable oscillator
    pub overlay: Option<(statime::OverlayClock<RawUnder>, Rc<std::cell::Cell<Time>>)>,
    /// None: a perfect clock whose reading the harness sets directly
    pub osc: Option<Osc>,
    pub now: Time,
    /// (issuing port tag, command, succeeded)
    pub log: Vec<(u16, ClockCmd, bool)>,
    /// fail the n-th (0-based, counted over all command calls) command
    pub fail_calls: Vec<u64>,
    pub fail_all: bool,
    pub calls: u64,
}

/// Recording clock shared by all ports of a node.  `now()` is whatever the
/// harness last set; commands are logged with the tag of the issuing port.
#[derive(Clone)]
pub struct SimClock {
    pub core: Rc<RefCell<ClockCore>>,
    pub tag: u16,
}

impl SimClock {
    pub fn new(core: Rc<RefCell<ClockCore>>, tag: u16) -> Self {
        SimClock { core, tag }
    }
    /// true time has advanced: update the reading (oscillator model) or set it (perfect clock)
    pub fn advance_to(core: &Rc<RefCell<ClockCore>>, true_ns: u64) {
        let mut k = core.borrow_mut();
        let k = &mut *k;
        match &mut k.osc {
            Some(o) => {
                o.true_ns = true_ns;
                let l = o.local(true_ns).max(0) as u128;
                k.now = time_bits(l);
                if let Some((ov, cell)) = &k.overlay {
                    cell.set(time_bits(l));
                    k.now = ov.now();
                }
            }
            None => k.now = time_ns(true_ns),
        }
    }
    /// keep the clock coherent with a timestamp it is said to have produced
    pub fn saw(core: &Rc<RefCell<ClockCore>>, t: Time) {
        let mut k = core.borrow_mut();
        if t > k.now {
            k.now = t;
        }
    }
    fn cmd(&mut self, c: ClockCmd) -> Result<Time, ClockFail> {
        let mut k = self.core.borrow_mut();
        let n = k.calls;
        k.calls += 1;
        let fail = k.fail_all || k.fail_calls.contains(&n);
        let tag = self.tag;
        if !fail && k.overlay.is_some() {
            let k = &mut *k;
            let (ov, _) = k.overlay.as_mut().unwrap();
            // what the overlay returns is what the servo gets
            let ret = match &c {
                ClockCmd::SetFreq(p) => ov.set_frequency(*p),
                ClockCmd::Step(d) => ov.step_clock(*d),
                ClockCmd::SetProps => Ok(ov.now()),
            };
            k.now = ov.now();
            k.log.push((tag, c, ret.is_ok()));
            return ret;
        }
        if !fail {
            if let Some(o) = &mut k.osc {
                o.reanchor();
                match &c {
                    ClockCmd::SetFreq(p) => o.adj_ppm = *p,
                    ClockCmd::Step(d) => o.base_local = (o.base_local + dur_to_bits(*d)).max(0),
                    ClockCmd::SetProps => {}
                }
                let l = o.local(o.true_ns).max(0) as u128;
                k.now = time_bits(l);
            } else if let ClockCmd::Step(d) = &c {
                // a stepped clock reads differently afterwards
                // and stays inside its own range (the property's timestamp domain [0, 2^63 ns))
                k.now = (k.now + *d).min(Time::from_nanos((1 << 63) - 1));
            }
        }
        k.log.push((tag, c, !fail));
        if fail {
            Err(ClockFail)
        } else {
            Ok(k.now)
        }
    }
}

#[derive(Debug)]
pub struct ClockFail;

impl fmt::Debug for SimClock {
    fn fmt(&self, f: &mut fmt::Formatter<'_>) -> fmt::Result {
        write!(f, "SimClock({})", self.tag)
    }
}

impl Clock for SimClock {
    type Error = ClockFail;
    fn now(&self) -> Time {
        self.core.borrow().now
    }
    fn step_clock(&mut self, offset: Duration) -> Result<Time, ClockFail> {
        self.cmd(ClockCmd::Step(offset))
    }
    fn set_frequency(&mut self, ppm: f64) -> Result<Time, ClockFail> {
        self.cmd(ClockCmd::SetFreq(ppm))
    }
    fn set_properties(&mut self, _t: &TimePropertiesDS) -> Result<(), ClockFail> {
        self.cmd(ClockCmd::SetProps).map(|_| ())
    }
}

// ---------------------------------------------------------------------------
// filter
// ---------------------------------------------------------------------------

#[derive(Clone, Debug, PartialEq)]
pub enum FilterCall {
    New,
    Measurement(Measurement),
    Update,
    Demobilize,
}

pub type FilterLog = Rc<RefCell<Vec<FilterCall>>>;

/// Recording filter: logs every call.  Without `kalman` it returns the delay it was
/// given as the mean delay (like the repository's own `TestFilter`) and never
/// touches the clock; with `kalman` it delegates every call to a real
/// `KalmanFilter` of that configuration.
pub struct RecFilter {
    log: FilterLog,
    inner: Option<statime::filters::KalmanFilter>,
}

impl fmt::Debug for RecFilter {
    fn fmt(&self, f: &mut fmt::Formatter<'_>) -> fmt::Result {
        // state is a function of the call log (printed by the config)
        write!(f, "RecFilter")
    }
}

/// Config of [`RecFilter`]: the shared log.  Its `Debug` prints the log when
/// `in_key`, so the whole measurement history is part of the canonical state.
#[derive(Clone)]
pub struct RecCfg {
    pub log: FilterLog,
    pub in_key: bool,
    pub kalman: Option<statime::filters::KalmanConfiguration>,
}
#[allow(non_snake_case)]
pub fn RecCfg(log: FilterLog, in_key: bool) -> RecCfg {
    RecCfg { log, in_key, kalman: None }
}
impl fmt::Debug for RecCfg {
    fn fmt(&self, f: &mut fmt::Formatter<'_>) -> fmt::Result {
        if self.in_key || self.kalman.is_some() {
            write!(f, "{:?}", self.log.borrow())
        } else {
            write!(f, "RecCfg")
        }
    }
}

impl Filter for RecFilter {
    type Config = RecCfg;
    fn new(config: RecCfg) -> Self {
        config.log.borrow_mut().push(FilterCall::New);
        RecFilter { inner: config.kalman.map(statime::filters::KalmanFilter::new), log: config.log }
    }
    fn measurement<C: Clock>(&mut self, m: Measurement, clock: &mut C) -> FilterUpdate {
        self.log.borrow_mut().push(FilterCall::Measurement(m));
        if let Some(k) = &mut self.inner {
            return k.measurement(m, clock);
        }
        let mut u = FilterUpdate::default();
        if let Some(d) = m.delay {
            u.mean_delay = Some(d);
        }
        if let Some(d) = m.peer_delay {
            u.mean_delay = Some(d);
        }
        u
    }
    fn update<C: Clock>(&mut self, clock: &mut C) -> FilterUpdate {
        self.log.borrow_mut().push(FilterCall::Update);
        if let Some(k) = &mut self.inner {
            return k.update(clock);
        }
        FilterUpdate::default()
    }
    fn demobilize<C: Clock>(self, clock: &mut C) {
        self.log.borrow_mut().push(FilterCall::Demobilize);
        if let Some(k) = self.inner {
            k.demobilize(clock);
        }
    }
    fn current_estimates(&self) -> FilterEstimate {
        if let Some(k) = &self.inner {
            return k.current_estimates();
        }
        FilterEstimate { offset_from_master: Duration::ZERO, mean_delay: Duration::ZERO }
    }
}

// ---------------------------------------------------------------------------
// actions
// ---------------------------------------------------------------------------

/// Owned copy of a `PortAction`.
pub enum Act {
    SendEvent { ctx: Option<TimestampContext>, data: Vec<u8>, link_local: bool },
    SendGeneral { data: Vec<u8>, link_local: bool },
    ResetAnnounce(core::time::Duration),
    ResetSync(core::time::Duration),
    ResetDelay(core::time::Duration),
    ResetReceipt(core::time::Duration),
    ResetFilter(core::time::Duration),
    Forward(ForwardedTLV<'static>),
}

impl Act {
    pub fn kind(&self) -> &'static str {
        match self {
            Act::SendEvent { .. } => "SendEvent",
            Act::SendGeneral { .. } => "SendGeneral",
            Act::ResetAnnounce(_) => "ResetAnnounce",
            Act::ResetSync(_) => "ResetSync",
            Act::ResetDelay(_) => "ResetDelay",
            Act::ResetReceipt(_) => "ResetReceipt",
            Act::ResetFilter(_) => "ResetFilter",
            Act::Forward(_) => "Forward",
        }
    }
    /// Textual form without the (opaque) timestamp context
    pub fn describe(&self) -> String {
        match self {
            Act::SendEvent { ctx, data, link_local } => {
                format!("SendEvent({:?},ll={},{})", ctx, link_local, hex(data))
            }
            Act::SendGeneral { data, link_local } => format!("SendGeneral(ll={},{})", link_local, hex(data)),
            Act::ResetAnnounce(d) => format!("ResetAnnounce({:?})", d),
            Act::ResetSync(d) => format!("ResetSync({:?})", d),
            Act::ResetDelay(d) => format!("ResetDelay({:?})", d),
            Act::ResetReceipt(d) => format!("ResetReceipt({:?})", d),
            Act::ResetFilter(d) => format!("ResetFilter({:?})", d),
            Act::Forward(t) => format!("Forward({:?})", t),
        }
    }
}

pub fn hex(b: &[u8]) -> String {
    let mut s = String::with_capacity(b.len() * 2);
    for x in b {
        s.push_str(&format!("{:02x}", x));
    }
    s
}

pub fn unhex(s: &str) -> Vec<u8> {
    (0..s.len() / 2).map(|i| u8::from_str_radix(&s[2 * i..2 * i + 2], 16).unwrap()).collect()
}

pub fn collect(it: PortActionIterator<'_>) -> Vec<Act> {
    it.map(|a| match a {
        PortAction::SendEvent { context, data, link_local } => {
            Act::SendEvent { ctx: Some(context), data: data.to_vec(), link_local }
        }
        PortAction::SendGeneral { data, link_local } => Act::SendGeneral { data: data.to_vec(), link_local },
        PortAction::ResetAnnounceTimer { duration } => Act::ResetAnnounce(duration),
        PortAction::ResetSyncTimer { duration } => Act::ResetSync(duration),
        PortAction::ResetDelayRequestTimer { duration } => Act::ResetDelay(duration),
        PortAction::ResetAnnounceReceiptTimer { duration } => Act::ResetReceipt(duration),
        PortAction::ResetFilterUpdateTimer { duration } => Act::ResetFilter(duration),
        PortAction::ForwardTLV { tlv } => Act::Forward(tlv.into_owned()),
    })
    .collect()
}

// ---------------------------------------------------------------------------
// TLV providers
// ---------------------------------------------------------------------------

/// Minimal provider honouring the documented contract ("should provide the next
/// available TLV, unless it is larger than max_size") with `<=` (`strict=false`)
/// or with `<` (`strict=true`).
#[derive(Default)]
pub struct QueueProvider {
    pub queue: std::collections::VecDeque<ForwardedTLV<'static>>,
    pub strict: bool,
}
impl ForwardedTLVProvider for QueueProvider {
    fn next_if_smaller(&mut self, max_size: usize) -> Option<ForwardedTLV<'_>> {
        let ok = match self.queue.front() {
            None => return None,
            Some(t) => {
                if self.strict {
                    t.size() < max_size
                } else {
                    t.size() <= max_size
                }
            }
        };
        if ok {
            self.queue.pop_front()
        } else {
            None
        }
    }
}

// ---------------------------------------------------------------------------
// node
// ---------------------------------------------------------------------------

pub type Aml = Option<Vec<ClockIdentity>>;
pub type PortT<'a, L, F> = Port<'a, L, Aml, ChoiceRng, SimClock, F, TrackLock>;

pub enum Slot<'a, F: Filter> {
    Run(PortT<'a, Running, F>),
    Bmca(PortT<'a, InBmca, F>),
    Gone,
}

#[derive(Clone, Debug)]
pub struct PortSpec {
    pub p2p: bool,
    pub master_only: bool,
    pub aml: Aml,
    pub log_announce: i8,
    pub log_sync: i8,
    pub log_delay: i8,
    pub receipt_timeout: u8,
    pub asymmetry_ns_frac: i128, // in 2^-32 ns
    pub minor: u8,
    pub rng: f64,
    pub rng_cycle: Vec<f64>,
}

impl Default for PortSpec {
    fn default() -> Self {
        PortSpec {
            p2p: false,
            master_only: false,
            aml: None,
            log_announce: 0,
            log_sync: 0,
            log_delay: 0,
            receipt_timeout: 3,
            asymmetry_ns_frac: 0,
            minor: 1,
            rng: 0.5,
            rng_cycle: vec![],
        }
    }
}

#[derive(Clone, Debug)]
pub struct NodeSpec {
    pub identity: [u8; 8],
    pub priority_1: u8,
    pub priority_2: u8,
    pub class: u8,
    pub accuracy: u8,
    pub variance: u16,
    pub domain: u8,
    pub sdo: u16,
    pub slave_only: bool,
    pub path_trace: bool,
    /// give the local clock distinctive time properties (PTP timescale, UTC offset 37 valid,
    /// leap61, both traceable, GNSS) instead of the arbitrary-timescale default
    pub gnss_time: bool,
    pub ports: Vec<PortSpec>,
}

impl Default for NodeSpec {
    fn default() -> Self {
        NodeSpec {
            identity: [0x10, 0, 0, 0, 0, 0, 0, 0x01],
            priority_1: 128,
            priority_2: 128,
            class: 248,
            accuracy: 0xfe,
            variance: 0x8000 - 23 * 256,
            domain: 0,
            sdo: 0,
            slave_only: false,
            path_trace: false,
            gnss_time: false,
            ports: vec![PortSpec::default()],
        }
    }
}

pub fn accuracy_from_octet(o: u8) -> statime::config::ClockAccuracy {
    // goes through serde?  No: the public enum has a public to_primitive() and all
    // variants are public; build the inverse by search (256 candidates).
    use statime::config::ClockAccuracy as A;
    let all = [
        A::Reserved, A::PS1, A::PS2_5, A::PS10, A::PS25, A::PS100, A::PS250, A::NS1, A::NS2_5, A::NS10,
        A::NS25, A::NS100, A::NS250, A::US1, A::US2_5, A::US10, A::US25, A::US100, A::US250, A::MS1,
        A::MS2_5, A::MS10, A::MS25, A::MS100, A::MS250, A::S1, A::S10, A::SGT10, A::Unknown,
    ];
    for a in all {
        if a.to_primitive() == o {
            return a;
        }
    }
    if (0x80..=0xfd).contains(&o) {
        return A::ProfileSpecific(o - 0x80);
    }
    A::Reserved
}

impl NodeSpec {
    pub fn quality(&self) -> ClockQuality {
        ClockQuality {
            clock_class: self.class,
            clock_accuracy: accuracy_from_octet(self.accuracy),
            offset_scaled_log_variance: self.variance,
        }
    }
    pub fn instance_config(&self) -> InstanceConfig {
        InstanceConfig {
            clock_identity: ClockIdentity(self.identity),
            priority_1: self.priority_1,
            priority_2: self.priority_2,
            domain_number: self.domain,
            sdo_id: SdoId::try_from(self.sdo).unwrap(),
            slave_only: self.slave_only,
            path_trace: self.path_trace,
            clock_quality: self.quality(),
        }
    }
}

impl PortSpec {
    pub fn config(&self) -> PortConfig<Aml> {
        let interval = Interval::from_log_2(self.log_delay);
        PortConfig {
            acceptable_master_list: self.aml.clone(),
            delay_mechanism: if self.p2p { DelayMechanism::P2P { interval } } else { DelayMechanism::E2E { interval } },
            announce_interval: Interval::from_log_2(self.log_announce),
            announce_receipt_timeout: self.receipt_timeout,
            sync_interval: Interval::from_log_2(self.log_sync),
            master_only: self.master_only,
            delay_asymmetry: Duration::from_fixed_nanos(fixed::types::I96F32::from_bits(self.asymmetry_ns_frac)),
            minor_ptp_version: if self.minor == 0 { PtpMinorVersion::Zero } else { PtpMinorVersion::One },
        }
    }
}

impl NodeSpec {
    /// the time properties the instance is constructed with
    pub fn time_properties(&self) -> TimePropertiesDS {
        if self.gnss_time {
            TimePropertiesDS::new_ptp_time(Some(37), statime::config::LeapIndicator::Leap61, true, true, TimeSource::Gnss)
        } else {
            default_time_properties()
        }
    }
}

pub fn default_time_properties() -> TimePropertiesDS {
    TimePropertiesDS::new_arbitrary_time(false, false, TimeSource::InternalOscillator)
}

/// One real `PtpInstance` with its real ports and the host-side bookkeeping.
pub struct Node<'a, F: Filter> {
    pub inst: &'a PtpInstance<F, TrackLock>,
    pub ports: Vec<Slot<'a, F>>,
    pub clock: Rc<RefCell<ClockCore>>,
    pub rngs: Vec<ChoiceRng>,
    /// contexts of event frames sent and not yet timestamped, per port (FIFO)
    pub pending_ts: Vec<std::collections::VecDeque<(TimestampContext, Vec<u8>)>>,
    /// actions returned by `end_bmca` at creation
    pub initial_actions: Vec<Vec<Act>>,
}

impl<'a, F: Filter> Node<'a, F> {
    pub fn new(
        inst: &'a PtpInstance<F, TrackLock>,
        spec: &NodeSpec,
        mut filter_cfg: impl FnMut(usize) -> F::Config,
    ) -> Self {
        let clock = Rc::new(RefCell::new(ClockCore::default()));
        let mut ports = vec![];
        let mut rngs = vec![];
        let mut pending = vec![];
        let mut initial = vec![];
        for (i, ps) in spec.ports.iter().enumerate() {
            let rng = if ps.rng_cycle.is_empty() { ChoiceRng::constant(ps.rng) } else { ChoiceRng::cycling(ps.rng_cycle.clone()) };
            rngs.push(rng.clone());
            let p = inst.add_port(ps.config(), filter_cfg(i), SimClock::new(clock.clone(), (i + 1) as u16), rng);
            let (p, acts) = p.end_bmca();
            initial.push(collect(acts));
            ports.push(Slot::Run(p));
            pending.push(Default::default());
        }
        Node { inst, ports, clock, rngs, pending_ts: pending, initial_actions: initial }
    }

    pub fn port(&mut self, i: usize) -> &mut PortT<'a, Running, F> {
        match &mut self.ports[i] {
            Slot::Run(p) => p,
            _ => panic!("harness: port {i} not running"),
        }
    }
    pub fn port_ref(&self, i: usize) -> &PortT<'a, Running, F> {
        match &self.ports[i] {
            Slot::Run(p) => p,
            _ => panic!("harness: port {i} not running"),
        }
    }

    /// Run the instance-level BMCA over all ports (optionally presenting the
    /// ports in the given order); returns the pending actions of each port.
    pub fn bmca(&mut self) -> Vec<Vec<Act>> {
        let order: Vec<usize> = (0..self.ports.len()).collect();
        self.bmca_ordered(&order)
    }

    pub fn bmca_ordered(&mut self, order: &[usize]) -> Vec<Vec<Act>> {
        let n = self.ports.len();
        let mut in_bmca: Vec<Option<PortT<'a, InBmca, F>>> = Vec::with_capacity(n);
        for s in self.ports.iter_mut() {
            match std::mem::replace(s, Slot::Gone) {
                Slot::Run(p) => in_bmca.push(Some(p.start_bmca())),
                _ => panic!("harness: port not running at bmca"),
            }
        }
        {
            // present in requested order
            let mut refs: Vec<&mut PortT<'a, InBmca, F>> = Vec::with_capacity(n);
            let mut rest: Vec<(usize, &mut Option<PortT<'a, InBmca, F>>)> = in_bmca.iter_mut().enumerate().collect();
            for &want in order {
                let pos = rest.iter().position(|(i, _)| *i == want).expect("harness: bad order");
                let (_, slot) = rest.remove(pos);
                refs.push(slot.as_mut().unwrap());
            }
            self.inst.bmca(&mut refs);
        }
        let mut out = vec![];
        for (i, p) in in_bmca.into_iter().enumerate() {
            let (p, acts) = p.unwrap().end_bmca();
            out.push(collect(acts));
            self.ports[i] = Slot::Run(p);
        }
        out
    }
}

/// Helper that builds instance + node and runs `f` (ports borrow the instance, so a
/// run is a function scope).
pub fn with_node<F: Filter, R>(
    spec: &NodeSpec,
    filter_cfg: impl FnMut(usize) -> F::Config,
    f: impl FnOnce(&mut Node<'_, F>) -> R,
) -> R {
    let inst = PtpInstance::<F, TrackLock>::new(spec.instance_config(), spec.time_properties());
    let mut node = Node::new(&inst, spec, filter_cfg);
    f(&mut node)
}

pub fn time_ns(ns: u64) -> Time {
    Time::from_nanos(ns)
}
/// Time from 2^-32 ns units
pub fn time_bits(bits: u128) -> Time {
    Time::from_fixed_nanos(fixed::types::U96F32::from_bits(bits))
}
pub fn time_to_bits(t: Time) -> u128 {
    t.nanos().to_bits()
}
pub fn dur_bits(bits: i128) -> Duration {
    Duration::from_fixed_nanos(fixed::types::I96F32::from_bits(bits))
}
pub fn dur_to_bits(d: Duration) -> i128 {
    d.nanos().to_bits()
}

pub trait AmlExt {
    fn accepts(&self, id: [u8; 8]) -> bool;
}
impl AmlExt for Aml {
    fn accepts(&self, id: [u8; 8]) -> bool {
        self.is_acceptable(ClockIdentity(id))
    }
}
